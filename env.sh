# Toolchain environment for every build the framework performs (see DESIGN.md 2.3).
export PATH=/opt/veriftools/go1.26.8/bin:$PATH
export GOTOOLCHAIN=local GOPROXY=off GOSUMDB=off GOFLAGS=-mod=mod
