#!/bin/sh
# Build the framework from files on disk only (offline).
set -e
cd "$(dirname "$0")"
. ./env.sh
mkdir -p bin
(cd sim && go build -o ../bin/vcheck ./cmd/vcheck)
