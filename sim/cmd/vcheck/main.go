// Command vcheck is the entry point of every check registered in
// /verif/MANIFEST.json.
//
//	vcheck check -prop C05 -tier quick|thorough
//	vcheck replay <file>
//	vcheck selftest
package main

import (
	"errors"
	"flag"
	"fmt"
	"os"

	"verif/sim/orch"
)

func main() {
	if len(os.Args) < 2 {
		usage()
	}
	var err error
	switch os.Args[1] {
	case "check":
		fl := flag.NewFlagSet("check", flag.ExitOnError)
		prop := fl.String("prop", "", "property id")
		tier := fl.String("tier", "", "quick or thorough")
		fl.Parse(os.Args[2:])
		if *tier == "" {
			*tier = os.Getenv("VERIF_TIER")
		}
		if *tier == "" {
			*tier = "quick"
		}
		err = orch.Check(*prop, *tier)
	case "replay":
		if len(os.Args) < 3 {
			usage()
		}
		err = orch.Replay(os.Args[2])
	case "selftest":
		err = orch.SelfTest(os.Args[2:])
	default:
		usage()
	}
	if err != nil {
		var ee *orch.ExitError
		if errors.As(err, &ee) {
			if ee.Msg != "" {
				fmt.Fprintln(os.Stderr, ee.Msg)
			}
			os.Exit(ee.Code)
		}
		fmt.Fprintln(os.Stderr, err)
		os.Exit(2)
	}
}

func usage() {
	fmt.Fprintln(os.Stderr, "usage: vcheck check -prop <id> [-tier quick|thorough] | vcheck replay <file> | vcheck selftest")
	os.Exit(2)
}
