package orch

import (
	"bytes"
	"crypto/sha256"
	"fmt"
	"os"
	"os/exec"
	"path/filepath"
	"strings"
	"sync"

	"verif/sim/clisim"
	"verif/sim/corpus"
	"verif/sim/tape"
)

// SelfTest proves the simulators deterministic before anything they report is
// believed: every sampled run seed is executed in many separate processes at
// GOMAXPROCS 1, 4 and 16 and the event-log signatures must be identical.
func SelfTest(args []string) error {
	runs := 4000
	procs := 30
	s, err := NewScratch("selftest")
	if err != nil {
		return Fatal2("%v", err)
	}
	defer s.Remove()
	// static part: no sync.Map.Range in the simulator's own packages
	out, _ := exec.Command("grep", "-rn", "--include=*.go", `\.Range(`, filepath.Join(SimDir, "simrt"), filepath.Join(SimDir, "mockharness"),
		filepath.Join(SimDir, "tape"), filepath.Join(SimDir, "clisim"), filepath.Join(SimDir, "gensim")).Output()
	if len(bytes.TrimSpace(out)) > 0 {
		return Fatal2("sync.Map.Range-style iteration in simulator code:\n%s", out)
	}
	moqDir, err := CopyRepo(s)
	if err != nil {
		return Fatal2("%v", err)
	}
	moqBin, err := BuildMoq(s, moqDir)
	if err != nil {
		return err
	}
	b, err := buildMockHarness(s, moqBin, corpus.Spec{Seed: Seed(1), NPkgs: 12, ConfigsPer: 4}, "")
	if err != nil {
		return err
	}
	for _, prop := range []string{"C05", "C06", "C03"} {
		sums := make([]string, procs)
		var mu sync.Mutex
		var werr error
		Parallel(procs, 16, func(i int) {
			gmp := []string{"1", "4", "16"}[i%3]
			o, err := runSplit(s.Dir, GoEnv("GOMAXPROCS="+gmp), b.Harness, "worker", "-prop", prop, "-seed", fmt.Sprint(Seed(1)), "-runs", fmt.Sprint(runs), "-hash-only")
			mu.Lock()
			defer mu.Unlock()
			if err != nil {
				werr = err
				return
			}
			sums[i] = fmt.Sprintf("%x", sha256.Sum256(o))
			if i == 0 {
				os.WriteFile(filepath.Join(s.Dir, prop+".ref"), o, 0o644)
			} else if sums[0] != "" && sums[i] != sums[0] {
				os.WriteFile(filepath.Join(s.Dir, fmt.Sprintf("%s.%d", prop, i)), o, 0o644)
			}
		})
		if werr != nil {
			return Fatal2("selftest worker failed: %v", werr)
		}
		for i := range sums {
			if sums[i] != sums[0] {
				return Fatal2("engine A is NOT deterministic: process %d of %s produced different event-log signatures for the same seed", i, prop)
			}
		}
		fmt.Printf("selftest mocksim %s: %d runs x %d processes (GOMAXPROCS 1/4/16): identical signatures\n", prop, runs, procs)
	}
	// engine C: the same scenarios three times
	bin, _, err := BuildMoqSimos(s)
	if err != nil {
		return err
	}
	runner := &clisim.Runner{MoqBin: bin, Env: MoqEnv(), Base: filepath.Join(s.Dir, "scn")}
	os.MkdirAll(runner.Base, 0o755)
	n := 24
	hashes := make([][3]string, n)
	Parallel(n*3, 16, func(k int) {
		i, rep := k/3, k%3
		sd := tape.Mix(tape.MixS(Seed(1), "selftest/clisim"), uint64(i))
		sc := clisim.GenScenario(tape.New(sd), sd, clisim.Profiles[[]string{"C15", "C17", "C18"}[i%3]])
		fs, st, err := runner.Run(sc, fmt.Sprintf("st%d-%d", i, rep))
		if err != nil {
			hashes[i][rep] = "error:" + err.Error()
			return
		}
		var keys []string
		for _, f := range fs {
			keys = append(keys, f.Key())
		}
		hashes[i][rep] = st.Sig + strings.Join(keys, ",")
	})
	for i, h := range hashes {
		if h[0] != h[1] || h[0] != h[2] {
			return Fatal2("engine C is NOT deterministic: scenario %d gave %v", i, h)
		}
	}
	fmt.Printf("selftest clisim: %d scenarios x 3 executions: identical traces\n", n)
	// engine B: two worker processes over the same cells
	gb, err := BuildGensim(s)
	if err != nil {
		return err
	}
	var dumps [2]string
	for rep := 0; rep < 2; rep++ {
		sub := &Scratch{Dir: filepath.Join(s.Dir, fmt.Sprintf("g%d", rep))}
		os.MkdirAll(sub.Dir, 0o755)
		gt := GenTier{NPkgs: 30, ConfigsPer: 2, Orders: 6}
		oc, err := genRun(sub, gb, "C14", "quick", gt, Seed(1), nil, 0)
		if err != nil {
			return err
		}
		h := sha256.New()
		for i := 0; i < 16; i++ {
			d, _ := os.ReadFile(filepath.Join(sub.Dir, fmt.Sprintf("gcorp-C14-%d", Seed(1)), "out", fmt.Sprintf("C14.dump.%d.json", i)))
			h.Write(d)
		}
		dumps[rep] = fmt.Sprintf("%x/%d", h.Sum(nil), len(oc.sigs))
	}
	if dumps[0] != dumps[1] {
		return Fatal2("engine B is NOT deterministic: %v", dumps)
	}
	fmt.Println("selftest gensim: two executions of 60 cells: identical canonical outputs and order signatures")
	return nil
}
