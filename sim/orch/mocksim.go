package orch

import (
	"encoding/binary"
	"encoding/json"
	"errors"
	"fmt"
	"os"
	"path/filepath"
	"regexp"
	"sort"
	"strings"
	"sync"

	"verif/sim/corpus"
	"verif/sim/mockharness"
	"verif/sim/seam"
)

// MockTier sizes one tier of the engine A checks.
type MockTier struct {
	NPkgs, ConfigsPer int
	Runs              int
	MaxSeconds        float64
	Seeds             int // number of consecutive seeds (thorough runs several)
}

// MockTiers per tier name.
var MockTiers = map[string]MockTier{
	"quick":    {NPkgs: 32, ConfigsPer: 3, Runs: 500000, MaxSeconds: 60, Seeds: 1},
	"thorough": {NPkgs: 64, ConfigsPer: 12, Runs: 6000000, MaxSeconds: 900, Seeds: 3},
}

// mockBuild is a built harness binary plus what was dropped on the way.
type mockBuild struct {
	Harness     string
	Corpus      *corpus.Corpus
	Cells       []*corpus.Cell // cells compiled into the harness
	MoqFailed   []string
	Unbuildable []string
	CorpDir     string
	// BadCells: cells moq failed on or whose output does not compile, with the message
	BadCells map[string]string
	AllCells []*corpus.Cell
	// StubControl: for a bad -stub cell, whether the very same command without
	// -stub yields a mock that compiles (then -stub is what breaks it)
	StubControl map[string]bool
	// Intolerable: cells whose mock does not compile for another reason than an
	// inherent name clash; without a violation elsewhere the check ends with exit 2
	Intolerable []string
}

var pkgErrRe = regexp.MustCompile(`(?m)^# (corp/cells/[^\s\[]+)`)

// buildMockHarness generates the corpus, runs the working tree's moq on every
// cell, instruments the output and compiles the harness binary. only, when
// non-empty, restricts the build to the cells whose id has that prefix.
func buildMockHarness(s *Scratch, moqBin string, spec corpus.Spec, only string) (*mockBuild, error) {
	c := corpus.Generate(spec)
	root := filepath.Join(s.Dir, "corp")
	b := &mockBuild{Corpus: c, CorpDir: root, BadCells: map[string]string{}, StubControl: map[string]bool{}}
	write := func(rel, content string) error {
		p := filepath.Join(root, rel)
		if err := os.MkdirAll(filepath.Dir(p), 0o755); err != nil {
			return err
		}
		return os.WriteFile(p, []byte(content), 0o644)
	}
	// phase 1: a complete, dependency-free module; moq runs with empty GOFLAGS
	if err := write("go.mod", "module "+corpus.Module+"\n\ngo 1.24\n"); err != nil {
		return nil, err
	}
	for p, src := range c.Universe {
		if err := write(p, src); err != nil {
			return nil, err
		}
	}
	b.AllCells = c.Cells
	var cells []*corpus.Cell
	for _, cell := range c.Cells {
		if only != "" && cell.ID != only {
			continue
		}
		cells = append(cells, cell)
		if err := write(cell.Dir()+"/p.go", cell.Pkg.Source); err != nil {
			return nil, err
		}
	}
	type result struct {
		ok  bool
		msg string
	}
	res := make([]result, len(cells))
	Parallel(len(cells), 16, func(i int) {
		cell := cells[i]
		out, err := Run(filepath.Join(root, cell.Dir()), MoqEnv(), moqBin, cell.MoqArgs()...)
		if err != nil {
			res[i] = result{false, strings.TrimSpace(firstLines(string(out), 3))}
			return
		}
		res[i] = result{ok: true}
	})
	// phase 1b: what moq wrote, compiled as it is. A mock that does not compile
	// here is moq's doing (dropped and counted; compiling is not one of the
	// claimed properties); one that compiles here and not after instrumentation
	// is the instrumenter's doing and stops the check (exit 2).
	origBad := map[string]string{}
	if out, err := Run(root, GoEnv(), "go", "build", "./..."); err != nil {
		ms := pkgErrRe.FindAllStringSubmatchIndex(string(out), -1)
		for k, m := range ms {
			end := len(out)
			if k+1 < len(ms) {
				end = ms[k+1][0]
			}
			origBad[string(out)[m[2]:m[3]]] = firstLines(string(out)[m[1]:end], 4)
		}
		if len(origBad) == 0 {
			return nil, Fatal2("compiling the corpus with moq's output failed (not a verdict):\n%s", firstLines(string(out), 40))
		}
	}
	var unsupported []string
	var good []*corpus.Cell
	for i, cell := range cells {
		if res[i].ok {
			if msg, isBad := origBad[mockPkgPath(cell)]; isBad {
				b.Unbuildable = append(b.Unbuildable, cell.ID+" ["+strings.Join(cell.MoqArgs(), " ")+"]: "+strings.TrimSpace(msg))
				b.BadCells[cell.ID] = "generated mock does not compile: " + strings.TrimSpace(msg)
				continue
			}
			if msg, isBad := origBad[cell.ImportPath()]; isBad {
				b.Unbuildable = append(b.Unbuildable, cell.ID+" (source package): "+strings.TrimSpace(msg))
				continue
			}
		}
		if !res[i].ok {
			b.MoqFailed = append(b.MoqFailed, cell.ID+" ["+strings.Join(cell.MoqArgs(), " ")+"]: "+res[i].msg)
			b.BadCells[cell.ID] = "moq failed: " + res[i].msg
			continue
		}
		outFile := filepath.Join(root, cell.Dir(), "mock_gen.go")
		if cell.Flags.Pkg != "" {
			outFile = filepath.Join(root, cell.Dir(), cell.Flags.Pkg, "mock_gen.go")
		}
		src, err := os.ReadFile(outFile)
		if err != nil {
			b.MoqFailed = append(b.MoqFailed, cell.ID+": moq exited 0 but wrote no file")
			continue
		}
		// keep the original next to the instrumented file for replay files
		os.WriteFile(outFile+".orig", src, 0o644)
		inst, err := seam.InstrumentMock(src)
		if err != nil {
			var u *seam.ErrUnsupported
			if errors.As(err, &u) {
				unsupported = append(unsupported, cell.ID+": "+u.What)
				continue
			}
			b.Unbuildable = append(b.Unbuildable, cell.ID+": output does not parse: "+err.Error())
			continue
		}
		if err := os.WriteFile(outFile, inst, 0o644); err != nil {
			return nil, err
		}
		if err := os.WriteFile(filepath.Join(filepath.Dir(outFile), "reg_gen.go"), []byte(regFile(cell)), 0o644); err != nil {
			return nil, err
		}
		good = append(good, cell)
	}
	// control for every bad -stub cell: the same command without -stub, in a
	// copy of the package (still the dependency-free module)
	for _, cell := range cells {
		if _, bad := b.BadCells[cell.ID]; !bad || !cell.Flags.Stub {
			continue
		}
		ctl := "cells/" + cell.ID + "x"
		if err := write(ctl+"/p.go", cell.Pkg.Source); err != nil {
			return nil, err
		}
		var args []string
		for _, a := range cell.MoqArgs() {
			if a != "-stub" {
				args = append(args, a)
			}
		}
		if _, err := Run(filepath.Join(root, ctl), MoqEnv(), moqBin, args...); err == nil {
			if _, err := Run(root, GoEnv(), "go", "build", "./"+ctl+"/..."); err == nil {
				b.StubControl[cell.ID] = true
			}
		}
		os.RemoveAll(filepath.Join(root, ctl))
	}
	// A mock that does not compile as moq wrote it takes its cell out of the
	// check. That is acceptable for the one inherent clash the corpus contains
	// on purpose (an interface method named like a generated helper: "already
	// declared") and for -stub cells whose control compiles (C07 reports
	// those); anything else would silently remove exactly the cells that could
	// show a defect, so it stops the check instead.
	var intolerable []string
	for _, cell := range cells {
		msg, bad := b.BadCells[cell.ID]
		if !bad || !strings.HasPrefix(msg, "generated mock does not compile") {
			continue
		}
		if strings.Contains(msg, "already declared") || strings.Contains(msg, "redeclared") || (cell.Flags.Stub && b.StubControl[cell.ID]) {
			continue
		}
		intolerable = append(intolerable, cell.ID+" ["+strings.Join(cell.MoqArgs(), " ")+"]: "+firstLines(msg, 2))
	}
	b.Intolerable = intolerable // (the other cells are still checked: a violation found there is reported)
	if len(unsupported) > 0 {
		return nil, Fatal2("generated mocks use synchronisation the simulator does not own (not a verdict):\n  %s", strings.Join(unsupported, "\n  "))
	}
	// phase 2: the module now depends on the simulator
	gomod := "module " + corpus.Module + "\n\ngo 1.24\n\nrequire verif/sim v0.0.0\n\nreplace verif/sim => " + SimDir + "\n"
	if err := write("go.mod", gomod); err != nil {
		return nil, err
	}
	sum, _ := os.ReadFile(filepath.Join(SimDir, "go.sum"))
	os.WriteFile(filepath.Join(root, "go.sum"), sum, 0o644)
	for attempt := 0; attempt < 4; attempt++ {
		if len(good) == 0 {
			break
		}
		var main strings.Builder
		main.WriteString("package main\n\nimport (\n")
		for _, cell := range good {
			fmt.Fprintf(&main, "\t_ %q\n", mockPkgPath(cell))
		}
		main.WriteString("\t\"verif/sim/mockharness\"\n)\n\nfunc main() { mockharness.Main() }\n")
		if err := write("cmd/harness/main.go", main.String()); err != nil {
			return nil, err
		}
		bin := filepath.Join(s.Dir, "bin", "harness")
		out, err := Run(root, GoEnv(), "go", "build", "-o", bin, "./cmd/harness")
		if err == nil {
			b.Harness = bin
			b.Cells = good
			return b, nil
		}
		bad := map[string]string{}
		ms := pkgErrRe.FindAllStringSubmatchIndex(string(out), -1)
		for k, m := range ms {
			pkg := string(out)[m[2]:m[3]]
			end := len(out)
			if k+1 < len(ms) {
				end = ms[k+1][0]
			}
			bad[pkg] = firstLines(string(out)[m[1]:end], 4)
		}
		if len(bad) == 0 {
			return nil, Fatal2("building the harness failed (not a verdict):\n%s", firstLines(string(out), 40))
		}
		var keep []*corpus.Cell
		for _, cell := range good {
			if msg, isBad := bad[mockPkgPath(cell)]; isBad {
				return nil, Fatal2("the mock of cell %s [%s] compiles as moq wrote it but not after instrumentation: the instrumenter does not cope with this shape of generated code (not a verdict)\n%s",
					cell.ID, strings.Join(cell.MoqArgs(), " "), strings.TrimSpace(msg))
			}
			if msg, isBad := bad[cell.ImportPath()]; isBad {
				b.Unbuildable = append(b.Unbuildable, cell.ID+" (source package): "+strings.TrimSpace(msg))
				continue
			}
			keep = append(keep, cell)
		}
		if len(keep) == len(good) {
			return nil, Fatal2("building the harness failed (not a verdict):\n%s", firstLines(string(out), 40))
		}
		good = keep
	}
	return b, Fatal2("no cell of the corpus could be built: %d moq failures, %d unbuildable outputs (not a verdict)\n  %s\n  %s",
		len(b.MoqFailed), len(b.Unbuildable), strings.Join(head(b.MoqFailed, 5), "\n  "), strings.Join(head(b.Unbuildable, 5), "\n  "))
}

func head(xs []string, n int) []string {
	if len(xs) > n {
		return xs[:n]
	}
	return xs
}

func firstLines(s string, n int) string {
	lines := strings.Split(strings.TrimSpace(s), "\n")
	if len(lines) > n {
		lines = lines[:n]
	}
	return strings.Join(lines, "\n")
}

func mockPkgPath(c *corpus.Cell) string {
	if c.Flags.Pkg != "" {
		return c.ImportPath() + "/" + c.Flags.Pkg
	}
	return c.ImportPath()
}

// regFile renders the registration file of a cell.
func regFile(c *corpus.Cell) string {
	var b strings.Builder
	pkg := c.Pkg.Name
	q := ""
	if c.Flags.Pkg != "" {
		pkg = c.Flags.Pkg
		q = "vsrc."
	}
	fmt.Fprintf(&b, "package %s\n\nimport (\n\tvreflect \"reflect\"\n\tvmh \"verif/sim/mockharness\"\n", pkg)
	if q != "" {
		fmt.Fprintf(&b, "\tvsrc %q\n", c.ImportPath())
	}
	b.WriteString(")\n\nfunc init() {\n")
	for _, ifc := range c.Ifaces() {
		targs := ""
		if len(ifc.TypeArgs) > 0 {
			var ts []string
			for _, t := range ifc.TypeArgs {
				ts = append(ts, strings.ReplaceAll(t, "%s", q))
			}
			targs = "[" + strings.Join(ts, ", ") + "]"
		}
		mock := c.MockName(ifc.Name)
		fmt.Fprintf(&b, "\tvmh.Register(vmh.Cell{ID: %q, Iface: %q, MockName: %q,\n", c.ID+"/"+ifc.Name, ifc.Name, mock)
		fmt.Fprintf(&b, "\t\tIfaceType: vreflect.TypeOf((*%s%s%s)(nil)).Elem(),\n", q, ifc.Name, targs)
		fmt.Fprintf(&b, "\t\tNew:       func() any { return &%s%s{} },\n", mock, targs)
		if len(ifc.Unexported) > 0 {
			// unexported methods are handed over as method expressions (this file is in the mock's package)
			b.WriteString("\t\tUnexported: map[string]any{")
			for _, u := range ifc.Unexported {
				fmt.Fprintf(&b, "%q: (*%s%s).%s, %q: (*%s%s).%sCalls, ", u, mock, targs, u, u+"Calls", mock, targs, u)
			}
			b.WriteString("},\n")
		}
		fmt.Fprintf(&b, "\t\tFlags:     vmh.Flags{Stub: %v, SkipEnsure: %v, WithResets: %v, Pkg: %q, Fmt: %q, Alias: %v}})\n",
			c.Flags.Stub, c.Flags.SkipEnsure, c.Flags.WithResets, c.Flags.Pkg, c.Flags.Fmt, c.Flags.Alias)
	}
	b.WriteString("}\n")
	return b.String()
}

// MockCheck runs one engine A check end to end and returns the process exit
// status.
func MockCheck(prop, tier string) error {
	sw := Start()
	mt, ok := MockTiers[tier]
	if !ok {
		return Fatal2("unknown tier %q", tier)
	}
	seed := Seed(1)
	s, err := NewScratch(prop)
	if err != nil {
		return Fatal2("%v", err)
	}
	defer s.Remove()
	moqDir, err := CopyRepo(s)
	if err != nil {
		return Fatal2("copying /repo: %v", err)
	}
	tree := TreeHash(moqDir)
	moqBin, err := BuildMoq(s, moqDir)
	if err != nil {
		return err
	}
	known := LoadKnown()
	ev := &Evidence{PropertyID: prop, Tier: tier, Seed: int64(seed), Level: "exploration", Coverage: map[string]any{}}
	total := &mockharness.WorkerResult{Probes: map[string]int{}, Faults: map[string]int{}, Other: map[string]int{}, CellsRun: map[string]int{}}
	sigs := map[uint64]struct{}{}
	var violations, knownHits []string
	var nonReplay []string
	var seedsUsed []uint64
	var buildInfo []map[string]any
	var intolerable []string
	flagSets := map[string]bool{}
	var workerWall float64
	seenClass := map[string]bool{}
	for k := 0; k < mt.Seeds; k++ {
		sd := seed + uint64(k)
		seedsUsed = append(seedsUsed, sd)
		spec := corpus.Spec{Seed: sd, NPkgs: mt.NPkgs, ConfigsPer: mt.ConfigsPer}
		sub := &Scratch{Dir: filepath.Join(s.Dir, fmt.Sprintf("seed%d", k))}
		os.MkdirAll(sub.Dir, 0o755)
		b, err := buildMockHarness(sub, moqBin, spec, "")
		if err != nil {
			return err
		}
		for _, c := range b.Cells {
			flagSets[strings.Join(c.Flags.Args(), " ")+fmt.Sprint(c.Flags.Alias)] = true
		}
		if prop == "C07" {
			// the -stub zero-value path must exist for every shape: a package whose
			// mocks build without -stub but not with it has no such path
			for _, line := range stubBuildFindings(b, sd, spec, tree, tier, known, len(violations)+len(knownHits)) {
				if strings.HasPrefix(line, "KNOWN-FINDING") {
					knownHits = append(knownHits, line)
				} else if !seenClass["stub-mock-does-not-build"] {
					seenClass["stub-mock-does-not-build"] = true
					violations = append(violations, line)
				}
			}
		}
		buildInfo = append(buildInfo, map[string]any{"corpus_seed": sd, "cells_built": len(b.Cells), "moq_failed": b.MoqFailed, "unbuildable_cells": b.Unbuildable})
		intolerable = append(intolerable, b.Intolerable...)
		outDir := filepath.Join(sub.Dir, "out")
		os.MkdirAll(outDir, 0o755)
		prefix := filepath.Join(outDir, prop)
		const nw = 16
		var mu sync.Mutex
		var werr error
		wsw := Start()
		if dr := os.Getenv("VERIF_DEBUG_RUN"); dr != "" {
			// development aid: execute exactly one run index of this seed's batch and show what the worker says
			out, err := Run(sub.Dir, GoEnv("GOMAXPROCS=1"), b.Harness, "worker", "-prop", prop, "-seed", fmt.Sprint(sd),
				"-shard", dr, "-nshards", fmt.Sprint(mt.Runs), "-runs", fmt.Sprint(mt.Runs), "-out", prefix, "-tier", tier)
			fmt.Printf("debug run %s of seed %d: err=%v\n%s\n", dr, sd, err, out)
			continue
		}
		Parallel(nw, nw, func(i int) {
			out, err := Run(sub.Dir, GoEnv("GOMAXPROCS=1"), b.Harness, "worker", "-prop", prop, "-seed", fmt.Sprint(sd),
				"-shard", fmt.Sprint(i), "-nshards", fmt.Sprint(nw), "-runs", fmt.Sprint(mt.Runs),
				"-max-seconds", fmt.Sprint(mt.MaxSeconds), "-out", prefix, "-tier", tier)
			if err != nil {
				mu.Lock()
				werr = Fatal2("worker %d failed (not a verdict): %v\n%s", i, err, firstLines(string(out), 30))
				mu.Unlock()
			}
		})
		workerWall += wsw.Seconds()
		if werr != nil {
			return werr
		}
		for i := 0; i < nw; i++ {
			data, err := os.ReadFile(fmt.Sprintf("%s.res.%d.json", prefix, i))
			if err != nil {
				return Fatal2("worker %d wrote no result: %v", i, err)
			}
			var wr mockharness.WorkerResult
			if err := json.Unmarshal(data, &wr); err != nil {
				return Fatal2("worker %d result: %v", i, err)
			}
			mergeWorker(total, &wr)
			sd8, _ := os.ReadFile(fmt.Sprintf("%s.sigs.%d", prefix, i))
			for j := 0; j+8 <= len(sd8); j += 8 {
				sigs[binary.LittleEndian.Uint64(sd8[j:])] = struct{}{}
			}
			for _, vf := range wr.Violations {
				if cl := classOfReplay(vf); seenClass[cl] {
					continue // one replay per violation class is reported
				} else {
					seenClass[cl] = true
				}
				line, isKnown, err := confirmMockViolation(b, vf, prop, sd, spec, tree, known, len(violations)+len(knownHits))
				if err != nil {
					nonReplay = append(nonReplay, err.Error())
					continue
				}
				if isKnown {
					knownHits = append(knownHits, line)
				} else {
					violations = append(violations, line)
				}
			}
			nonReplay = append(nonReplay, wr.NonReplay...)
		}
		if len(violations) > 0 {
			break
		}
		if len(total.Unsupported) > 0 {
			return Fatal2("the harness met something it does not support (not a verdict):\n  %s", strings.Join(total.Unsupported, "\n  "))
		}
	}
	if len(nonReplay) > 0 && len(violations) == 0 {
		return Fatal2("a failure did not replay deterministically (simulator bug, not a verdict):\n  %s", strings.Join(nonReplay, "\n  "))
	}
	// evidence
	cov := ev.Coverage
	cov["evaluations"] = total.Runs
	cov["distinct_nontrivial"] = len(sigs)
	cov["rule"] = "one evaluation = one simulated run: a plan (tasks x ops x callback behaviours x nil functions) drawn from the tape for one compiled cell (corpus interface x moq flag set), executed under the seeded scheduler. Distinct = distinct FNV signature of (cell, plan, sequence of (task, event kind, object) at every scheduling point). Non-trivial = at least 2 tasks and at least one context switch taken while the previous task was still enabled, or, for single-task plans, at least 3 executed ops."
	cov["samples"] = total.Samples
	cov["seeds"] = seedsUsed
	cov["nontrivial_runs"] = total.Nontrivial
	cov["sim_steps"] = total.SimEvents
	cov["sim_time"] = "none: nothing in a generated mock reads a clock; progress is counted in scheduler steps (sim_steps)"
	cov["context_switches"] = total.Switches
	cov["incomplete_runs"] = total.Incomplete
	cov["faults_fired"] = total.Faults
	cov["probes"] = total.Probes
	cov["linearizability"] = map[string]any{"histories_checked": total.Lin.Checked, "skipped_too_long": total.Lin.Skipped, "inconclusive_timeout": total.Lin.Unknown, "max_ops": mockharness.MaxLinOps}
	cov["other_signals"] = total.Other
	cov["cells"] = len(total.CellsRun)
	cov["flag_sets_built"] = len(flagSets)
	cov["builds"] = buildInfo
	if workerWall > 0 {
		cov["runs_per_hour"] = int(float64(total.Runs) / workerWall * 3600)
	}
	cov["components_real"] = []string{"moq binary built from /repo's working tree", "its generated output for every cell, compiled by the Go compiler and executed", "reflect-driven callers"}
	cov["components_stubbed"] = []string{"package sync (simsync: Mutex, RWMutex with writer preference, Once, WaitGroup)", "goroutine scheduling (one runnable task, chosen from the tape)", "user callbacks (harness closures: return, panic, Goexit, stall, re-enter)"}
	cov["repo_tree_hash"] = tree
	cov["known_findings_hit"] = knownHits
	ev.Assumptions = []string{
		"memory is sequentially consistent inside the simulation; weak-memory outcomes are covered only through the happens-before race verdict",
		"probes are placed on receiver-rooted field accesses found syntactically; aliasing through a local pointer to a mock field is not followed",
		"the corpus grammar stays inside the envelope where moq's output compiles; unbuildable cells are dropped and counted",
	}
	ev.WallS = sw.Seconds()
	ev.Violations = len(violations)
	if err := WriteEvidence(ev); err != nil {
		return Fatal2("writing evidence: %v", err)
	}
	for _, l := range knownHits {
		fmt.Println(l)
	}
	fmt.Printf("%s %s: %d runs, %d distinct non-trivial interleavings, %d cells, %d flag sets, %.0fs\n", prop, tier, total.Runs, len(sigs), len(total.CellsRun), len(flagSets), sw.Seconds())
	if len(violations) > 0 {
		for _, l := range violations {
			fmt.Println(l)
		}
		return &ExitError{Code: 1}
	}
	if len(intolerable) > 0 {
		return Fatal2("no violation in the cells that could be built, but moq's output does not compile for %d corpus cell(s), which could therefore not be exercised (not a verdict on this property):\n  %s", len(intolerable), strings.Join(head(intolerable, 6), "\n  "))
	}
	return nil
}

func mergeWorker(t, w *mockharness.WorkerResult) {
	t.Runs += w.Runs
	t.Incomplete += w.Incomplete
	t.SimEvents += w.SimEvents
	t.Switches += w.Switches
	t.Nontrivial += w.Nontrivial
	for k, v := range w.Probes {
		t.Probes[k] += v
	}
	for k, v := range w.Faults {
		t.Faults[k] += v
	}
	for k, v := range w.Other {
		t.Other[k] += v
	}
	for k, v := range w.CellsRun {
		t.CellsRun[k] += v
	}
	t.Lin.Checked += w.Lin.Checked
	t.Lin.Skipped += w.Lin.Skipped
	t.Lin.Unknown += w.Lin.Unknown
	if len(t.Samples) < 4 {
		t.Samples = append(t.Samples, w.Samples...)
		if len(t.Samples) > 4 {
			t.Samples = t.Samples[:4]
		}
	}
	t.Unsupported = append(t.Unsupported, w.Unsupported...)
}

// confirmMockViolation re-executes a worker's minimised replay in a fresh
// process; only if it fails the same way is it reported.
func confirmMockViolation(b *mockBuild, file, prop string, seed uint64, spec corpus.Spec, tree string, known []KnownFinding, n int) (string, bool, error) {
	data, err := os.ReadFile(file)
	if err != nil {
		return "", false, err
	}
	var rp mockharness.Replay
	if err := json.Unmarshal(data, &rp); err != nil {
		return "", false, err
	}
	rp.Corpus = spec
	rp.RepoTree = tree
	// attach the generated (uninstrumented) source for the reader
	cellDir := strings.SplitN(rp.CellID, "/", 2)[0]
	var gen string
	for _, c := range b.Cells {
		if c.ID == cellDir {
			f := filepath.Join(b.CorpDir, c.Dir(), "mock_gen.go.orig")
			if c.Flags.Pkg != "" {
				f = filepath.Join(b.CorpDir, c.Dir(), c.Flags.Pkg, "mock_gen.go.orig")
			}
			g, _ := os.ReadFile(f)
			gen = string(g)
			rp.CellDesc += " | moq " + strings.Join(c.MoqArgs(), " ")
		}
	}
	out, err := Run(filepath.Dir(file), GoEnv(), b.Harness, "replay", "-file", file)
	if err != nil {
		return "", false, fmt.Errorf("replay process failed: %v: %s", err, firstLines(string(out), 5))
	}
	var rr struct {
		Same      bool   `json:"reproduced"`
		TraceHash string `json:"trace_hash"`
	}
	if err := json.Unmarshal(out, &rr); err != nil || !rr.Same {
		return "", false, fmt.Errorf("violation %s/%s of cell %s did not reproduce in a fresh process (hash %s vs %s)", prop, rp.Class, rp.CellID, rr.TraceHash, rp.TraceHash)
	}
	os.MkdirAll(ReplayDir, 0o755)
	dst := filepath.Join(ReplayDir, fmt.Sprintf("%s-%d-%d.json", prop, seed, n))
	full := map[string]any{}
	d2, _ := json.Marshal(rp)
	json.Unmarshal(d2, &full)
	full["generated_source"] = gen
	d3, _ := json.MarshalIndent(full, "", " ")
	if err := os.WriteFile(dst, d3, 0o644); err != nil {
		return "", false, err
	}
	if k := IsKnown(known, prop, rp.Class); k != nil {
		return fmt.Sprintf("KNOWN-FINDING: property=%s %s", prop, k.Text), true, nil
	}
	detail := ""
	for _, f := range rp.Findings {
		if f.Prop == prop && f.Class == rp.Class {
			detail = f.Detail
			break
		}
	}
	return fmt.Sprintf("VIOLATION property=%s replay=%s class=%s cell=%s :: %s", prop, dst, rp.Class, rp.CellID, detail), false, nil
}

// stubBuildFindings reports -stub cells that moq could not generate or whose
// output does not compile although the same command without -stub yields a
// mock that compiles.
func stubBuildFindings(b *mockBuild, seed uint64, spec corpus.Spec, tree, tier string, known []KnownFinding, n int) []string {
	var out []string
	for _, c := range b.AllCells {
		msg, bad := b.BadCells[c.ID]
		if !bad || !c.Flags.Stub || !b.StubControl[c.ID] {
			continue
		}
		rp := map[string]any{"property": "C07", "class": "stub-mock-does-not-build", "engine": "mocksim-build", "verif_seed": seed, "tier": tier,
			"corpus": spec, "cell_id": c.ID, "cell": "moq " + strings.Join(c.MoqArgs(), " "), "message": msg, "repo_tree_hash": tree, "source": c.Pkg.Source,
			"trace": []string{"moq " + strings.Join(c.MoqArgs(), " ") + " in a copy of package " + c.Pkg.ID, msg, "the same command without -stub yields a mock that compiles"}}
		os.MkdirAll(ReplayDir, 0o755)
		dst := filepath.Join(ReplayDir, fmt.Sprintf("C07-%d-b%d.json", seed, n+len(out)))
		data, _ := json.MarshalIndent(rp, "", " ")
		os.WriteFile(dst, data, 0o644)
		if k := IsKnown(known, "C07", "stub-mock-does-not-build"); k != nil {
			out = append(out, fmt.Sprintf("KNOWN-FINDING: property=C07 %s", k.Text))
			continue
		}
		out = append(out, fmt.Sprintf("VIOLATION property=C07 replay=%s class=stub-mock-does-not-build cell=%s :: with -stub the mock of package %s cannot be built (%s) although it builds without -stub: no zero-value path exists for this shape",
			dst, c.ID, c.Pkg.ID, firstLines(msg, 2)))
		break
	}
	return out
}

// MockBuildReplay rebuilds one cell and reports whether it still fails.
func MockBuildReplay(path string) error {
	data, err := os.ReadFile(path)
	if err != nil {
		return Fatal2("%v", err)
	}
	var rp struct {
		Property string      `json:"property"`
		CellID   string      `json:"cell_id"`
		Corpus   corpus.Spec `json:"corpus"`
	}
	if err := json.Unmarshal(data, &rp); err != nil || rp.Corpus.NPkgs == 0 {
		return Fatal2("bad replay file")
	}
	s, err := NewScratch("replay")
	if err != nil {
		return Fatal2("%v", err)
	}
	defer s.Remove()
	moqDir, err := CopyRepo(s)
	if err != nil {
		return Fatal2("%v", err)
	}
	moqBin, err := BuildMoq(s, moqDir)
	if err != nil {
		return err
	}
	b, err := buildMockHarness(s, moqBin, rp.Corpus, rp.CellID)
	if b != nil {
		// (when the only cell of this build fails, buildMockHarness also reports "no cell could be built")
		msg, bad := b.BadCells[rp.CellID]
		if bad && b.StubControl[rp.CellID] {
			fmt.Println("  ", msg)
			fmt.Printf("VIOLATION property=%s replay=%s (reproduced)\n", rp.Property, path)
			return &ExitError{Code: 1}
		}
		if bad || err == nil {
			fmt.Println("not reproduced on the current tree")
			return nil
		}
	}
	return err
}

func classOfReplay(file string) string {
	data, _ := os.ReadFile(file)
	var h struct {
		Class string `json:"class"`
	}
	json.Unmarshal(data, &h)
	return h.Class
}

// MockReplay rebuilds the cell named in a replay file from the current
// working tree and re-executes the recorded plan and schedule.
func MockReplay(path string) error {
	data, err := os.ReadFile(path)
	if err != nil {
		return Fatal2("%v", err)
	}
	var rp mockharness.Replay
	if err := json.Unmarshal(data, &rp); err != nil {
		return Fatal2("%v", err)
	}
	var spec corpus.Spec
	sb, _ := json.Marshal(rp.Corpus)
	if err := json.Unmarshal(sb, &spec); err != nil || spec.NPkgs == 0 {
		return Fatal2("replay file has no corpus spec")
	}
	s, err := NewScratch("replay")
	if err != nil {
		return Fatal2("%v", err)
	}
	defer s.Remove()
	moqDir, err := CopyRepo(s)
	if err != nil {
		return Fatal2("%v", err)
	}
	moqBin, err := BuildMoq(s, moqDir)
	if err != nil {
		return err
	}
	b, err := buildMockHarness(s, moqBin, spec, strings.SplitN(rp.CellID, "/", 2)[0])
	if err != nil {
		return err
	}
	// hash is not compared when the tree differs from the recorded one
	if TreeHash(moqDir) != rp.RepoTree {
		var m map[string]any
		json.Unmarshal(data, &m)
		delete(m, "trace_hash")
		data, _ = json.Marshal(m)
		fmt.Println("note: /repo differs from the tree this replay was recorded on; comparing violation class only")
	}
	tmp := filepath.Join(s.Dir, "replay.json")
	os.WriteFile(tmp, data, 0o644)
	out, err := Run(s.Dir, GoEnv(), b.Harness, "replay", "-file", tmp)
	if err != nil {
		return Fatal2("replay failed: %v\n%s", err, out)
	}
	var rr struct {
		Same     bool                  `json:"reproduced"`
		Findings []mockharness.Finding `json:"findings"`
		Trace    []string              `json:"trace"`
	}
	json.Unmarshal(out, &rr)
	for _, t := range rr.Trace {
		fmt.Println("  ", t)
	}
	for _, f := range rr.Findings {
		fmt.Printf("finding %s/%s: %s\n", f.Prop, f.Class, f.Detail)
	}
	if rr.Same {
		fmt.Printf("VIOLATION property=%s replay=%s (reproduced)\n", rp.Property, path)
		return &ExitError{Code: 1}
	}
	fmt.Println("not reproduced on the current tree")
	return nil
}

var _ = sort.Strings
