package orch

import (
	"encoding/json"
	"os"
)

// Check dispatches a property to its engine.
func Check(prop, tier string) error {
	switch prop {
	case "C03", "C04", "C05", "C06", "C07":
		return MockCheck(prop, tier)
	case "C08":
		// the compiled mocks (engine A), then the library-level half (engine B)
		if err := MockCheck(prop, tier); err != nil {
			return err
		}
		return GenLibCheck(prop, tier)
	case "C14":
		return GenCheck(prop, tier)
	case "C15", "C17", "C18":
		return CliCheck(prop, tier)
	}
	return Fatal2("property %q is not claimed by any engine", prop)
}

// Replay dispatches a replay file to its engine.
func Replay(path string) error {
	data, err := os.ReadFile(path)
	if err != nil {
		return Fatal2("%v", err)
	}
	var h struct {
		Engine string `json:"engine"`
	}
	json.Unmarshal(data, &h)
	switch h.Engine {
	case "mocksim":
		return MockReplay(path)
	case "mocksim-build":
		return MockBuildReplay(path)
	case "clisim":
		return CliReplayFile(path)
	case "clisim-sweep":
		return SweepReplay(path)
	case "gensim-xproc":
		return XprocReplay(path)
	case "gensim":
		return GenReplayFile(path)
	}
	return Fatal2("unknown engine %q in %s", h.Engine, path)
}
