// Package orch is the orchestration layer of the checks: scratch copies,
// builds, worker processes, evidence and replay files.
package orch

import (
	"bytes"
	"crypto/sha256"
	"encoding/hex"
	"encoding/json"
	"fmt"
	"io"
	"io/fs"
	"os"
	"os/exec"
	"os/signal"
	"path/filepath"
	"sort"
	"strconv"
	"strings"
	"sync"
	"syscall"
	"time"
)

// GoBin is the toolchain every build uses.
const GoBin = "/opt/veriftools/go1.26.8/bin"

// Paths. The registered commands run with cwd=/verif against /repo; a
// background run from a snapshot (vp run --with-repo) sets VERIF_REPO and runs
// from the snapshot's directory, so nothing it writes lands in /verif.
var (
	RepoDir   = envOr("VERIF_REPO", "/repo")
	VerifDir  = verifDir()
	SimDir    = filepath.Join(VerifDir, "sim")
	ReplayDir = filepath.Join(envOr("VERIF_OUT", VerifDir), "replays")
	EvidDir   = filepath.Join(envOr("VERIF_OUT", VerifDir), "evidence")
)

func envOr(k, def string) string {
	if v := os.Getenv(k); v != "" {
		return v
	}
	return def
}

func verifDir() string {
	if v := os.Getenv("VERIF_DIR"); v != "" {
		return v
	}
	if wd, err := os.Getwd(); err == nil {
		if _, err := os.Stat(filepath.Join(wd, "sim", "go.mod")); err == nil {
			return wd
		}
	}
	return "/verif"
}

// ExitError carries the exit status a check must end with: 2 for anything
// that is not a verdict.
type ExitError struct {
	Code int
	Msg  string
	// DriverAPI: the in-process driver does not compile against this tree's
	// public API (pkg/moq changed shape): the library-level halves cannot run
	DriverAPI bool
}

func (e *ExitError) Error() string { return e.Msg }

// Fatal2 aborts with exit status 2 (not a verdict).
func Fatal2(format string, a ...any) *ExitError {
	return &ExitError{Code: 2, Msg: fmt.Sprintf(format, a...)}
}

// Scratch is a temporary work area outside /repo and /verif.
type Scratch struct {
	Dir  string
	once sync.Once
}

// NewScratch creates the work area and arranges its removal on signals.
func NewScratch(tag string) (*Scratch, error) {
	base := os.Getenv("VERIF_SCRATCH")
	if base == "" {
		base = os.TempDir()
	}
	d, err := os.MkdirTemp(base, "vcheck-"+tag+"-")
	if err != nil {
		return nil, err
	}
	s := &Scratch{Dir: d}
	ch := make(chan os.Signal, 1)
	signal.Notify(ch, syscall.SIGINT, syscall.SIGTERM)
	go func() {
		<-ch
		s.Remove()
		os.Exit(2)
	}()
	return s, nil
}

// Remove deletes the work area (go build caches make files read-only).
func (s *Scratch) Remove() {
	s.once.Do(func() {
		if os.Getenv("VERIF_KEEP_SCRATCH") != "" {
			fmt.Fprintln(os.Stderr, "keeping scratch", s.Dir)
			return
		}
		filepath.WalkDir(s.Dir, func(p string, d fs.DirEntry, err error) error {
			if err == nil && d.IsDir() {
				os.Chmod(p, 0o755)
			}
			return nil
		})
		os.RemoveAll(s.Dir)
	})
}

// GoEnv is the environment of every build the framework performs.
func GoEnv(extra ...string) []string {
	env := []string{
		"PATH=" + GoBin + ":" + os.Getenv("PATH"),
		"HOME=" + os.Getenv("HOME"),
		"GOTOOLCHAIN=local", "GOPROXY=off", "GOSUMDB=off", "GOFLAGS=-mod=mod -trimpath",
		"GOCACHE=" + goCache(), "GOMODCACHE=" + goModCache(),
		"CGO_ENABLED=0",
	}
	return append(env, extra...)
}

// MoqEnv is the environment moq itself runs in inside scratch modules: the
// same toolchain, but an EMPTY GOFLAGS so that the go command moq spawns has
// no licence to rewrite go.mod.
func MoqEnv(extra ...string) []string {
	env := []string{
		"PATH=" + GoBin + ":" + os.Getenv("PATH"),
		"HOME=" + os.Getenv("HOME"),
		"GOTOOLCHAIN=local", "GOPROXY=off", "GOSUMDB=off", "GOFLAGS=",
		"GOCACHE=" + goCache(), "GOMODCACHE=" + goModCache(),
		"CGO_ENABLED=0",
	}
	return append(env, extra...)
}

func goCache() string {
	if v := os.Getenv("GOCACHE"); v != "" {
		return v
	}
	return filepath.Join(os.Getenv("HOME"), ".cache", "go-build")
}

func goModCache() string {
	if v := os.Getenv("GOMODCACHE"); v != "" {
		return v
	}
	return filepath.Join(os.Getenv("HOME"), "go", "pkg", "mod")
}

// Run executes a command and returns combined output.
func Run(dir string, env []string, name string, args ...string) ([]byte, error) {
	cmd := exec.Command(name, args...)
	cmd.Dir = dir
	cmd.Env = env
	var buf bytes.Buffer
	cmd.Stdout = &buf
	cmd.Stderr = &buf
	err := cmd.Run()
	return buf.Bytes(), err
}

// runSplit executes a command and returns stdout only.
func runSplit(dir string, env []string, name string, args ...string) ([]byte, error) {
	cmd := exec.Command(name, args...)
	cmd.Dir = dir
	cmd.Env = env
	var so, se bytes.Buffer
	cmd.Stdout = &so
	cmd.Stderr = &se
	err := cmd.Run()
	return so.Bytes(), err
}

// CopyTree copies src to dst, skipping .git. Symlinks are copied as links.
func CopyTree(src, dst string) error {
	return filepath.WalkDir(src, func(p string, d fs.DirEntry, err error) error {
		if err != nil {
			return err
		}
		rel, _ := filepath.Rel(src, p)
		if rel == ".git" {
			if d.IsDir() {
				return filepath.SkipDir
			}
			return nil // a worktree's .git is a file
		}
		target := filepath.Join(dst, rel)
		info, err := d.Info()
		if err != nil {
			return err
		}
		switch {
		case d.IsDir():
			return os.MkdirAll(target, 0o755)
		case info.Mode()&os.ModeSymlink != 0:
			l, err := os.Readlink(p)
			if err != nil {
				return err
			}
			return os.Symlink(l, target)
		case info.Mode().IsRegular():
			in, err := os.Open(p)
			if err != nil {
				return err
			}
			defer in.Close()
			out, err := os.OpenFile(target, os.O_CREATE|os.O_WRONLY|os.O_TRUNC, info.Mode().Perm()|0o200)
			if err != nil {
				return err
			}
			if _, err := io.Copy(out, in); err != nil {
				out.Close()
				return err
			}
			return out.Close()
		}
		return nil
	})
}

// TreeHash hashes file names and contents of the Go sources of a tree.
func TreeHash(dir string) string {
	h := sha256.New()
	var files []string
	filepath.WalkDir(dir, func(p string, d fs.DirEntry, err error) error {
		if err != nil {
			return nil
		}
		if d.IsDir() && (d.Name() == ".git" || d.Name() == "testpackages") {
			return filepath.SkipDir
		}
		if !d.IsDir() && (strings.HasSuffix(p, ".go") || strings.HasSuffix(p, "go.mod")) {
			files = append(files, p)
		}
		return nil
	})
	sort.Strings(files)
	for _, f := range files {
		data, _ := os.ReadFile(f)
		rel, _ := filepath.Rel(dir, f)
		fmt.Fprintf(h, "%s %d\n", rel, len(data))
		h.Write(data)
	}
	return hex.EncodeToString(h.Sum(nil))[:16]
}

// CopyRepo copies the working tree of /repo into the scratch area and returns
// the copy's path.
func CopyRepo(s *Scratch) (string, error) {
	dst := filepath.Join(s.Dir, "moq")
	if err := CopyTree(RepoDir, dst); err != nil {
		return "", err
	}
	return dst, nil
}

// BuildMoq builds the (unmodified) moq binary from the scratch copy.
func BuildMoq(s *Scratch, moqDir string) (string, error) {
	bin := filepath.Join(s.Dir, "bin", "moq")
	os.MkdirAll(filepath.Dir(bin), 0o755)
	out, err := Run(moqDir, GoEnv(), "go", "build", "-o", bin, MainPackage(moqDir))
	if err != nil {
		return "", Fatal2("building moq from the working tree failed (not a verdict):\n%s", out)
	}
	return bin, nil
}

// MainPackage finds the moq command in a copy of the tree: the module root if
// it holds package main, otherwise the main package that imports pkg/moq (so
// that moving main.go to cmd/moq does not blind the checks).
func MainPackage(moqDir string) string {
	out, err := Run(moqDir, GoEnv(), "go", "list", "-f", "{{.Name}}|{{.Dir}}|{{join .Imports \",\"}}", "./...")
	if err != nil {
		return "."
	}
	best := "."
	for _, line := range strings.Split(string(out), "\n") {
		parts := strings.SplitN(strings.TrimSpace(line), "|", 3)
		if len(parts) != 3 || parts[0] != "main" {
			continue
		}
		rel, err := filepath.Rel(moqDir, parts[1])
		if err != nil {
			continue
		}
		if rel == "." {
			return "."
		}
		if strings.Contains(parts[2], "/pkg/moq") {
			best = "./" + rel
		}
	}
	return best
}

// Seed returns VERIF_SEED or def.
func Seed(def uint64) uint64 {
	if v := os.Getenv("VERIF_SEED"); v != "" {
		if n, err := strconv.ParseUint(v, 10, 64); err == nil {
			return n
		}
		if n, err := strconv.ParseInt(v, 10, 64); err == nil {
			return uint64(n)
		}
	}
	return def
}

// Parallel runs fn(i) for i in [0,n) on at most workers goroutines.
func Parallel(n, workers int, fn func(i int)) {
	var wg sync.WaitGroup
	ch := make(chan int)
	for w := 0; w < workers; w++ {
		wg.Add(1)
		go func() {
			defer wg.Done()
			for i := range ch {
				fn(i)
			}
		}()
	}
	for i := 0; i < n; i++ {
		ch <- i
	}
	close(ch)
	wg.Wait()
}

// Evidence is the schema of /verif/evidence/<id>.json.
type Evidence struct {
	PropertyID  string         `json:"property_id"`
	Tier        string         `json:"tier"`
	Seed        int64          `json:"seed"`
	Level       string         `json:"level"`
	Coverage    map[string]any `json:"coverage"`
	Assumptions []string       `json:"assumptions"`
	WallS       float64        `json:"wall_s"`
	Violations  int            `json:"violations"`
}

// WriteEvidence writes the evidence file of a property.
func WriteEvidence(e *Evidence) error {
	os.MkdirAll(EvidDir, 0o755)
	data, err := json.MarshalIndent(e, "", " ")
	if err != nil {
		return err
	}
	return os.WriteFile(filepath.Join(EvidDir, e.PropertyID+".json"), append(data, '\n'), 0o644)
}

// KnownFinding is one entry of /verif/known_findings.json.
type KnownFinding struct {
	Property  string `json:"property"`
	Status    string `json:"status"` // known | fixed
	Signature string `json:"signature"`
	Text      string `json:"text"`
	Commit    string `json:"commit,omitempty"`
}

// LoadKnown reads the committed known-findings file (never written at run time).
func LoadKnown() []KnownFinding {
	data, err := os.ReadFile(filepath.Join(VerifDir, "known_findings.json"))
	if err != nil {
		return nil
	}
	var f struct {
		Findings []KnownFinding `json:"findings"`
	}
	if json.Unmarshal(data, &f) != nil {
		return nil
	}
	return f.Findings
}

// IsKnown reports whether a violation signature of prop is listed as known.
func IsKnown(known []KnownFinding, prop, sig string) *KnownFinding {
	for i := range known {
		k := &known[i]
		if k.Property == prop && k.Status == "known" && k.Signature == sig {
			return k
		}
	}
	return nil
}

// Stopwatch measures wall time (reported only; never influences a run).
type Stopwatch struct{ t time.Time }

// Start starts a stopwatch.
func Start() Stopwatch { return Stopwatch{time.Now()} }

// Seconds returns the elapsed seconds.
func (s Stopwatch) Seconds() float64 { return time.Since(s.t).Seconds() }
