package orch

import (
	"bytes"
	"encoding/json"
	"fmt"
	"os"
	"path/filepath"
	"sort"
	"strings"
	"sync"

	"verif/sim/clisim"
	"verif/sim/corpus"
	"verif/sim/seam"
	"verif/sim/tape"
)

// CliTier sizes one tier of the engine C checks.
type CliTier struct {
	Scenarios int
	Seeds     int
}

// CliTiers per tier name.
var CliTiers = map[string]CliTier{
	"quick":    {Scenarios: 260, Seeds: 1},
	"thorough": {Scenarios: 4000, Seeds: 3},
}

// BuildMoqSimos builds moq from a scratch copy of the working tree with every
// os / io/ioutil import redirected to the simulated packages.
func BuildMoqSimos(s *Scratch) (string, string, error) {
	dst := filepath.Join(s.Dir, "moq-simos-src")
	if err := CopyTree(RepoDir, dst); err != nil {
		return "", "", Fatal2("copying /repo: %v", err)
	}
	// the CLI also gets the map-order seam: every moq process is given its own
	// order seed (SIMHOOK_SEED, derived from the scenario), so an order-dependent
	// result is both provoked and exactly replayable
	if _, err := seam.SeamGenerator(dst, GoEnv(), false, false); err != nil {
		return "", "", Fatal2("inserting the map-order seam into the CLI copy failed (not a verdict): %v", err)
	}
	changed, err := seam.RedirectImports(dst, map[string]string{"os": seam.SimosPath, "io/ioutil": seam.SimioutilPath})
	if err != nil {
		return "", "", Fatal2("redirecting os imports (not a verdict): %v", err)
	}
	if len(changed) == 0 {
		return "", "", Fatal2("no file of the working tree imports os: nothing to simulate (not a verdict)")
	}
	if err := seam.AddSimRequire(dst, SimDir); err != nil {
		return "", "", Fatal2("%v", err)
	}
	sum, _ := os.ReadFile(filepath.Join(SimDir, "go.sum"))
	f, _ := os.OpenFile(filepath.Join(dst, "go.sum"), os.O_APPEND|os.O_WRONLY, 0o644)
	if f != nil {
		f.Write(sum)
		f.Close()
	}
	bin := filepath.Join(s.Dir, "bin", "moq-simos")
	os.MkdirAll(filepath.Dir(bin), 0o755)
	out, err := Run(dst, GoEnv(), "go", "build", "-o", bin, MainPackage(dst))
	if err != nil {
		return "", "", Fatal2("building moq with os redirected to simos failed (not a verdict; an os API simos does not model?):\n%s", firstLines(string(out), 30))
	}
	return bin, TreeHash(dst), nil
}

// CliReplay is the replay artefact of engine C.
type CliReplay struct {
	Property  string           `json:"property"`
	Class     string           `json:"class"`
	Signature string           `json:"signature"`
	Engine    string           `json:"engine"`
	VerifSeed uint64           `json:"verif_seed"`
	Run       int              `json:"run"`
	Tier      string           `json:"tier"`
	Scenario  *clisim.Scenario `json:"scenario"`
	Findings  []clisim.Finding `json:"findings"`
	Trace     []string         `json:"trace"`
	TraceHash string           `json:"trace_hash"`
	Shrink    int              `json:"shrink_executions"`
	OrigSteps int              `json:"original_steps"`
	RepoTree  string           `json:"repo_tree_hash"`
}

func hasKey(fs []clisim.Finding, key string) *clisim.Finding {
	for i := range fs {
		if fs[i].Key() == key {
			return &fs[i]
		}
	}
	return nil
}

// minimiseCli drops steps, faults and flags while the same class recurs.
func minimiseCli(r *clisim.Runner, sc *clisim.Scenario, key, id string, budget int) (*clisim.Scenario, int) {
	execs := 0
	try := func(c *clisim.Scenario) bool {
		if execs >= budget {
			return false
		}
		execs++
		fs, _, err := r.Run(c, fmt.Sprintf("%s-min%d", id, execs))
		return err == nil && hasKey(fs, key) != nil
	}
	clone := func(c *clisim.Scenario) *clisim.Scenario {
		d := *c
		d.Steps = append([]clisim.Step(nil), c.Steps...)
		return &d
	}
	best := clone(sc)
	// the plain invocation (from the package directory, on a library package) first
	for _, simplify := range []func(c *clisim.Scenario) bool{
		func(c *clisim.Scenario) bool { was := c.FromRoot; c.FromRoot = false; return was },
		func(c *clisim.Scenario) bool { was := c.MainPkg; c.MainPkg = false; return was },
		func(c *clisim.Scenario) bool { was := c.IncompleteMod; c.IncompleteMod = false; return was },
	} {
		if c := clone(best); simplify(c) && try(c) {
			best = c
		}
	}
	for changed := true; changed && execs < budget; {
		changed = false
		for i := len(best.Steps) - 1; i >= 0 && len(best.Steps) > 1; i-- {
			c := clone(best)
			c.Steps = append(c.Steps[:i:i], c.Steps[i+1:]...)
			if try(c) {
				best, changed = c, true
			}
		}
		for i := range best.Steps {
			st := best.Steps[i]
			if st.Kind != clisim.StepRun {
				continue
			}
			if st.Fault2 != nil {
				c := clone(best)
				c.Steps[i].Fault2 = nil
				if try(c) {
					best, changed = c, true
					continue
				}
			}
			if st.Fault != nil {
				c := clone(best)
				c.Steps[i].Fault, c.Steps[i].Fault2 = nil, nil
				if try(c) {
					best, changed = c, true
					continue
				}
			}
			if len(st.Flags) > 0 {
				c := clone(best)
				c.Steps[i].Flags = nil
				if try(c) {
					best, changed = c, true
					continue
				}
			}
			if st.Rm {
				c := clone(best)
				c.Steps[i].Rm = false
				if try(c) {
					best, changed = c, true
				}
			}
		}
	}
	return best, execs
}

// CliCheck runs one engine C check end to end.
func CliCheck(prop, tier string) error {
	sw := Start()
	ct, ok := CliTiers[tier]
	if !ok {
		return Fatal2("unknown tier %q", tier)
	}
	pf, ok := clisim.Profiles[prop]
	if !ok {
		return Fatal2("no clisim profile for %s", prop)
	}
	seed := Seed(1)
	s, err := NewScratch(prop)
	if err != nil {
		return Fatal2("%v", err)
	}
	defer s.Remove()
	bin, tree, err := BuildMoqSimos(s)
	if err != nil {
		return err
	}
	known := LoadKnown()
	runner := &clisim.Runner{MoqBin: bin, Env: MoqEnv(), Base: filepath.Join(s.Dir, "scn")}
	os.MkdirAll(runner.Base, 0o755)

	type viol struct {
		rp  *CliReplay
		sig string
	}
	var mu sync.Mutex
	total := &clisim.Stats{FaultsFired: map[string]int{}, Outcomes: map[string]int{}, Priors: map[string]int{}}
	sigs := map[string]bool{}
	other := map[string]int{}
	bySig := map[string]*CliReplay{}
	var samples []string
	var seeds []uint64
	nontrivial := 0
	scenarios := 0
	var harnessErr error
	for k := 0; k < ct.Seeds; k++ {
		sd := seed + uint64(k)
		seeds = append(seeds, sd)
		base := tape.MixS(sd, prop+"/clisim")
		Parallel(ct.Scenarios, 16, func(i int) {
			tp := tape.New(tape.Mix(base, uint64(i)))
			sc := clisim.GenScenario(tp, tape.Mix(base, uint64(i)), pf)
			id := fmt.Sprintf("%d-%d", k, i)
			fs, st, err := runner.Run(sc, id)
			mu.Lock()
			defer mu.Unlock()
			if err != nil {
				harnessErr = err
				return
			}
			scenarios++
			total.Steps += st.Steps
			total.MoqRuns += st.MoqRuns
			total.FaultsUnfired += st.FaultsUnfired
			for f, n := range st.FaultsFired {
				total.FaultsFired[f] += n
			}
			for f, n := range st.Outcomes {
				total.Outcomes[f] += n
			}
			for f, n := range st.Priors {
				total.Priors[f] += n
			}
			if st.MoqRuns >= 3 || len(st.FaultsFired) > 0 {
				nontrivial++
				sigs[st.Sig] = true
			}
			if len(samples) < 4 && i%37 == 0 {
				samples = append(samples, fmt.Sprintf("scenario %d: %s\n  %s", i, sc, strings.Join(st.Trace, "\n  ")))
			}
			for _, f := range fs {
				if f.Prop != prop {
					other[f.Prop+"/"+f.Signature()]++
					continue
				}
				sig := f.Signature()
				if _, dup := bySig[sig]; dup {
					continue
				}
				bySig[sig] = &CliReplay{Property: prop, Class: f.Class, Signature: sig, Engine: "clisim", VerifSeed: sd, Run: i, Tier: tier,
					Scenario: sc, Findings: fs, Trace: st.Trace, TraceHash: st.Sig, OrigSteps: len(sc.Steps), RepoTree: tree}
			}
		})
		if harnessErr != nil {
			return Fatal2("scenario driver failed (not a verdict): %v", harnessErr)
		}
	}
	// confirm, minimise and report
	var sigList []string
	for sg := range bySig {
		sigList = append(sigList, sg)
	}
	sort.Strings(sigList)
	var lines, knownLines []string
	os.MkdirAll(ReplayDir, 0o755)
	for n, sg := range sigList {
		rp := bySig[sg]
		key := prop + "/" + rp.Class
		min, execs := minimiseCli(runner, rp.Scenario, key, fmt.Sprintf("v%d", n), 30)
		fs, st, err := runner.Run(min, fmt.Sprintf("v%d-final", n))
		f := hasKey(fs, key)
		if err != nil || f == nil {
			return Fatal2("violation %s did not replay (simulator bug, not a verdict): %s", sg, rp.Scenario)
		}
		rp.Scenario, rp.Findings, rp.Trace, rp.TraceHash, rp.Shrink = min, fs, st.Trace, st.Sig, execs
		rp.Signature = f.Signature()
		dst := filepath.Join(ReplayDir, fmt.Sprintf("%s-%d-%d.json", prop, rp.VerifSeed, n))
		data, _ := json.MarshalIndent(rp, "", " ")
		if err := os.WriteFile(dst, data, 0o644); err != nil {
			return Fatal2("%v", err)
		}
		if kf := IsKnown(known, prop, sg); kf != nil {
			knownLines = append(knownLines, fmt.Sprintf("KNOWN-FINDING: property=%s %s (%s; replay %s)", prop, kf.Text, sg, dst))
			continue
		}
		lines = append(lines, fmt.Sprintf("VIOLATION property=%s replay=%s class=%s :: %s", prop, dst, sg, f.Detail))
	}
	if pf.FaultPM >= 200 && total.FaultsUnfired > 20 && sumMap(total.FaultsFired) == 0 {
		return Fatal2("none of the %d planned faults fired: moq's file operations do not go through the os package the simulator replaced (not a verdict)", total.FaultsUnfired)
	}
	ev := &Evidence{PropertyID: prop, Tier: tier, Seed: int64(seed), Level: "exploration", Coverage: map[string]any{}}
	cov := ev.Coverage
	libEvals, libDistinct := 0, 0
	if prop == "C15" {
		n := 150
		if tier == "thorough" {
			n = 1500
		}
		sl, sruns, ssamples, err := fixedPointSweep(s, runner, seed, n, known)
		if err != nil {
			return Fatal2("fixed-point sweep: %v", err)
		}
		for _, l := range sl {
			if strings.HasPrefix(l, "KNOWN-FINDING") {
				knownLines = append(knownLines, l)
			} else {
				lines = append(lines, l)
			}
		}
		libEvals = sruns
		cov["fixed_point_sweep"] = map[string]any{"what": "the CLI run in place three times (absent, own output left in place, own output with -rm) on conflict-heavy packages of the engine B corpus; the three files must be byte-identical",
			"moq_processes": sruns, "packages": n, "samples": ssamples}
	}
	if prop == "C17" {
		// library half: Mocker.Mock driven in-process with a fault-injecting io.Writer
		gb, err := BuildGensim(s)
		if why, ok := LibHalfUnavailable(err); ok {
			fmt.Printf("NOTE: %s %s: the library-level half was not run: %s\n", prop, tier, why)
			cov["library_half"] = map[string]any{"not_run": why}
		} else if err != nil {
			return err
		} else {
			gt := GenTiers[tier]
			gt.CrossProcess = 0
			oc, err := genRun(s, gb, "C17", tier, gt, seed, known, len(lines)+len(knownLines))
			if err != nil {
				return err
			}
			lines = append(lines, oc.lines...)
			knownLines = append(knownLines, oc.knownLines...)
			libEvals, libDistinct = oc.res.Generations, len(oc.sigs)
			cov["library_half"] = map[string]any{"what": "Mocker.Mock(w, names...) through the public API with a writer that fails at once / after 0.1% / 50% / 99.9% of the bytes, and name lists with an unknown name, a non-interface or an unformattable alias at a tape-chosen position; observable: number of Write calls, bytes of the first call, returned error",
				"generations": oc.res.Generations, "cells": oc.cells, "distinct_cases": len(oc.sigs), "faults_fired": oc.res.Faults, "samples": oc.res.Samples}
		}
	}
	cov["evaluations"] = total.MoqRuns + libEvals
	cov["distinct_nontrivial"] = len(sigs) + libDistinct
	cov["rule"] = "one evaluation = one real moq process (os redirected to simos) inside a scenario: a history of 1-5 steps (run / repeat / damage -out / evolve interface / delete / break source) over one scratch module and one -out placement, each run step paired with a reference run of the same command to stdout in a copy of the pre-state. Distinct = distinct hash of the scenario's full trace (commands, prior states, exit statuses, fired faults, resulting -out state). Non-trivial = the scenario ran at least 3 moq processes or fired at least one injected fault."
	cov["samples"] = samples
	cov["seeds"] = seeds
	cov["scenarios"] = scenarios
	cov["steps"] = total.Steps
	cov["nontrivial_scenarios"] = nontrivial
	cov["faults_fired"] = total.FaultsFired
	cov["faults_planned_but_not_reached"] = total.FaultsUnfired
	cov["outcomes"] = total.Outcomes
	cov["prior_states_of_out"] = total.Priors
	cov["other_signals"] = other
	cov["sim_time"] = "none: moq reads no clock; progress is counted in moq processes and file-system primitives"
	if sw.Seconds() > 0 {
		cov["runs_per_hour"] = int(float64(total.MoqRuns) / sw.Seconds() * 3600)
	}
	cov["components_real"] = []string{"moq's main package and everything under it, built from /repo's working tree", "one OS process per invocation: real exit status, stdout, stderr", "the go list subprocess and go/packages", "the scratch directory's real file system"}
	cov["components_stubbed"] = []string{"package os as seen by moq's own code (simos: pass-through + fault plan + op log)"}
	cov["repo_tree_hash"] = tree
	cov["known_findings_hit"] = knownLines
	ev.Assumptions = []string{
		"only moq's own os calls are intercepted; file-system effects of anything else (the go subprocess) are caught by the recursive tree comparison, not by the op log",
		"no power-loss model: moq never syncs and no property promises durability beyond the process; crashes are used only to manufacture torn prior states",
		"at most one injected fault per moq process",
	}
	ev.WallS = sw.Seconds()
	ev.Violations = len(lines)
	if err := WriteEvidence(ev); err != nil {
		return Fatal2("writing evidence: %v", err)
	}
	for _, l := range knownLines {
		fmt.Println(l)
	}
	fmt.Printf("%s %s: %d scenarios, %d moq processes, %d distinct non-trivial histories, faults fired %d, %.0fs\n", prop, tier, scenarios, total.MoqRuns, len(sigs), sumMap(total.FaultsFired), sw.Seconds())
	if len(lines) > 0 {
		for _, l := range lines {
			fmt.Println(l)
		}
		return &ExitError{Code: 1}
	}
	return nil
}

func sumMap(m map[string]int) int {
	n := 0
	for _, v := range m {
		n += v
	}
	return n
}

// CliReplayFile re-executes a recorded scenario against the current tree.
func CliReplayFile(path string) error {
	data, err := os.ReadFile(path)
	if err != nil {
		return Fatal2("%v", err)
	}
	var rp CliReplay
	if err := json.Unmarshal(data, &rp); err != nil {
		return Fatal2("%v", err)
	}
	s, err := NewScratch("replay")
	if err != nil {
		return Fatal2("%v", err)
	}
	defer s.Remove()
	bin, _, err := BuildMoqSimos(s)
	if err != nil {
		return err
	}
	runner := &clisim.Runner{MoqBin: bin, Env: MoqEnv(), Base: filepath.Join(s.Dir, "scn")}
	os.MkdirAll(runner.Base, 0o755)
	fs, st, err := runner.Run(rp.Scenario, "replay")
	if err != nil {
		return Fatal2("%v", err)
	}
	for _, t := range st.Trace {
		fmt.Println("  ", t)
	}
	same := false
	for _, f := range fs {
		fmt.Printf("finding %s/%s: %s\n", f.Prop, f.Signature(), f.Detail)
		if f.Prop == rp.Property && f.Class == rp.Class {
			same = true
		}
	}
	if same {
		fmt.Printf("VIOLATION property=%s replay=%s (reproduced)\n", rp.Property, path)
		return &ExitError{Code: 1}
	}
	fmt.Println("not reproduced on the current tree")
	return nil
}

// fixedPointSweep (C15): for conflict-heavy packages of the engine B corpus,
// run the CLI in place twice with the first output left where it is, then once
// more with -rm: all three files must be byte-identical (moq's own output,
// import aliases included, is a fixed point of moq).
func fixedPointSweep(s *Scratch, runner *clisim.Runner, seed uint64, npkgs int, known []KnownFinding) (lines []string, runs int, samples []string, err error) {
	seenSig := map[string]bool{}
	spec := corpus.Spec{Seed: seed, NPkgs: npkgs, ConfigsPer: 2}
	cb := corpus.GenerateB(spec)
	root := filepath.Join(s.Dir, "fpsweep")
	if _, err := writeCorpusB(root, cb); err != nil {
		return nil, 0, nil, err
	}
	byPkg := map[string][]*corpus.CellB{}
	var pkgs []string
	for _, c := range cb.Cells {
		if c.Flags.Pkg != "" {
			continue
		}
		if len(byPkg[c.Pkg]) == 0 {
			pkgs = append(pkgs, c.Pkg)
		}
		byPkg[c.Pkg] = append(byPkg[c.Pkg], c)
	}
	var mu sync.Mutex
	os.MkdirAll(ReplayDir, 0o755)
	Parallel(len(pkgs), 16, func(i int) {
		dir := filepath.Join(root, "src", pkgs[i])
		tmp := filepath.Join(root, "tmp", pkgs[i])
		os.MkdirAll(tmp, 0o755)
		for _, c := range byPkg[pkgs[i]] {
			out := filepath.Join(dir, "mock_gen.go")
			os.Remove(out)
			args := append(corpus.Flags{Stub: c.Flags.Stub, SkipEnsure: c.Flags.SkipEnsure, WithResets: c.Flags.WithResets, Fmt: c.Flags.Fmt}.Args(), "-out", "mock_gen.go")
			names := c.Names
			first := filepath.Join(dir, "mock_a_gen.go")
			os.Remove(first)
			if len(names) >= 2 {
				// another generated file lives in the package (it sorts right
				// before the one under test): the mock of the first interface
				fa := append(corpus.Flags{Stub: c.Flags.Stub, SkipEnsure: c.Flags.SkipEnsure, WithResets: c.Flags.WithResets, Fmt: c.Flags.Fmt}.Args(), "-out", "mock_a_gen.go", ".", names[0])
				if runner.RunPlain(dir, fa, tmp) == 0 {
					names = names[1:]
				} else {
					os.Remove(first)
				}
			}
			tail := append([]string{"."}, names...)
			var files [3][]byte
			var exits [3]int
			for k := 0; k < 3; k++ {
				a := append([]string(nil), args...)
				if k == 2 {
					a = append(a, "-rm")
				}
				exits[k] = runner.RunPlain(dir, append(a, tail...), tmp)
				files[k], _ = os.ReadFile(out)
			}
			os.Remove(out)
			os.Remove(first)
			mu.Lock()
			runs += 3
			cmd := "moq " + strings.Join(append(args, tail...), " ")
			if len(samples) < 2 {
				samples = append(samples, fmt.Sprintf("%s in package %s: exits %v, %d bytes three times", cmd, c.Pkg, exits, len(files[0])))
			}
			if exits[0] == 0 && (exits[1] != 0 || exits[2] != 0 || !bytes.Equal(files[0], files[1]) || !bytes.Equal(files[0], files[2])) {
				what := "the second run over its own output"
				if exits[1] == 0 && bytes.Equal(files[0], files[1]) {
					what = "the run with -rm"
				}
				// why: does moq's first output compile at all?
				sig, why := "not-a-fixed-point", ""
				if exits[1] != 0 {
					os.WriteFile(out, files[0], 0o600)
					msg, berr := Run(dir, MoqEnv(), "go", "build", ".")
					os.Remove(out)
					if berr != nil {
						// moq's first output is not valid Go (name allocation, C12):
						// one class, the compile error is reported with it
						sig = "not-a-fixed-point@own-output-does-not-compile"
						why = firstLines(string(msg), 3)
					}
				}
				if !seenSig[sig] {
					seenSig[sig] = true
					rp := map[string]any{"property": "C15", "class": "not-a-fixed-point", "signature": sig, "engine": "clisim-sweep", "verif_seed": seed, "corpus": spec, "cell": c,
						"sources": packageFiles(cb, c.Pkg), "trace": []string{cmd + " (three times: absent, own output in place, own output with -rm)", fmt.Sprintf("exit statuses %v, sizes %d %d %d", exits, len(files[0]), len(files[1]), len(files[2])), why}}
					dst := filepath.Join(ReplayDir, fmt.Sprintf("C15-%d-s%d.json", seed, len(seenSig)-1))
					data, _ := json.MarshalIndent(rp, "", " ")
					os.WriteFile(dst, data, 0o644)
					detail := fmt.Sprintf("%s in conflict-heavy package %s: %s differs from the first output (exits %v, %d / %d / %d bytes) %s", cmd, c.Pkg, what, exits, len(files[0]), len(files[1]), len(files[2]), why)
					if k := IsKnown(known, "C15", sig); k != nil {
						lines = append(lines, fmt.Sprintf("KNOWN-FINDING: property=C15 moq's own output left in place does not compile, so the next identical run fails (%s in %s: %s); replay %s", cmd, c.Pkg, strings.ReplaceAll(why, "\n", " "), dst))
					} else {
						lines = append(lines, fmt.Sprintf("VIOLATION property=C15 replay=%s class=%s :: %s", dst, sig, detail))
					}
				}
			}
			mu.Unlock()
		}
	})
	return lines, runs, samples, nil
}

func packageFiles(cb *corpus.CorpusB, id string) map[string]string {
	for _, p := range cb.Pkgs {
		if p.ID == id {
			return p.Files
		}
	}
	return nil
}

// SweepReplay re-runs one cell of the fixed-point sweep.
func SweepReplay(path string) error {
	data, err := os.ReadFile(path)
	if err != nil {
		return Fatal2("%v", err)
	}
	var rp struct {
		Seed   uint64      `json:"verif_seed"`
		Corpus corpus.Spec `json:"corpus"`
	}
	if json.Unmarshal(data, &rp) != nil || rp.Corpus.NPkgs == 0 {
		return Fatal2("bad replay file")
	}
	s, err := NewScratch("replay")
	if err != nil {
		return Fatal2("%v", err)
	}
	defer s.Remove()
	bin, _, err := BuildMoqSimos(s)
	if err != nil {
		return err
	}
	runner := &clisim.Runner{MoqBin: bin, Env: MoqEnv(), Base: filepath.Join(s.Dir, "scn")}
	lines, _, _, err := fixedPointSweep(s, runner, rp.Seed, rp.Corpus.NPkgs, nil)
	if err != nil {
		return Fatal2("%v", err)
	}
	if len(lines) > 0 {
		fmt.Println(lines[0])
		return &ExitError{Code: 1}
	}
	fmt.Println("not reproduced on the current tree")
	return nil
}
