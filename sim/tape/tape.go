// Package tape is the single source of every decision a simulated run takes.
//
// One integer (the run seed) initialises a splitmix64 stream. Every choice is
// drawn through Tape.Int(n, label); in generate mode the drawn value is
// recorded, in replay mode the recorded values are returned (and zeros once
// the recording is exhausted: by construction 0 is always the simplest choice:
// first enabled task, no fault, identity order).
//
// Nothing in this package reads a clock, ranges over a map, or looks at a
// pointer value.
package tape

import "fmt"

// SplitMix64 is a tiny deterministic PRNG.
type SplitMix64 struct{ s uint64 }

// NewSplitMix64 returns a generator seeded with seed.
func NewSplitMix64(seed uint64) *SplitMix64 { return &SplitMix64{s: seed} }

// Next returns the next 64 pseudo-random bits.
func (r *SplitMix64) Next() uint64 {
	r.s += 0x9e3779b97f4a7c15
	z := r.s
	z = (z ^ (z >> 30)) * 0xbf58476d1ce4e5b9
	z = (z ^ (z >> 27)) * 0x94d049bb133111eb
	return z ^ (z >> 31)
}

// Mix derives a sub-seed from a seed and an index (stateless).
func Mix(seed uint64, idx uint64) uint64 {
	r := SplitMix64{s: seed ^ (idx+1)*0xd6e8feb86659fd93}
	r.Next()
	return r.Next()
}

// MixS derives a sub-seed from a seed and a string label.
func MixS(seed uint64, label string) uint64 {
	h := uint64(14695981039346656037)
	for i := 0; i < len(label); i++ {
		h ^= uint64(label[i])
		h *= 1099511628211
	}
	return Mix(seed, h)
}

// Tape records or replays a sequence of bounded integer choices.
type Tape struct {
	rng    *SplitMix64
	replay bool
	in     []int
	pos    int
	Out    []int // the choices actually taken in this execution (always recorded)
	// Bias, when > 0 in generate mode, is the probability in 1/1000 that a
	// choice with the "z" flag draws 0 regardless of n. Used by strategies.
}

// New returns a generating tape.
func New(seed uint64) *Tape { return &Tape{rng: NewSplitMix64(seed)} }

// Replay returns a tape that replays rec and then zeros.
func Replay(rec []int) *Tape { return &Tape{replay: true, in: rec} }

// Replaying reports whether the tape replays a recording.
func (t *Tape) Replaying() bool { return t.replay }

// Exhausted reports whether a replaying tape has handed out its whole recording.
func (t *Tape) Exhausted() bool { return t.replay && t.pos >= len(t.in) }

// Int returns a choice in [0,n). n<=1 consumes nothing and returns 0.
func (t *Tape) Int(n int) int {
	if n <= 1 {
		return 0
	}
	var v int
	if t.replay {
		if t.pos < len(t.in) {
			v = t.in[t.pos]
			if v < 0 {
				v = 0
			}
			v %= n
		}
		t.pos++
	} else {
		v = int(t.rng.Next() % uint64(n))
	}
	t.Out = append(t.Out, v)
	return v
}

// Force records a choice decided by a strategy rather than drawn uniformly.
// In replay mode the recorded value wins (the strategy's value is ignored).
func (t *Tape) Force(n int, strategyValue int) int {
	if n <= 1 {
		return 0
	}
	v := strategyValue
	if t.replay {
		v = 0
		if t.pos < len(t.in) {
			v = t.in[t.pos]
			if v < 0 {
				v = 0
			}
			v %= n
		} else if strategyValue > 0 && strategyValue < n {
			v = strategyValue // beyond the recording the caller's own choice stands (0 unless it says otherwise)
		}
		t.pos++
	} else if v < 0 || v >= n {
		panic(fmt.Sprintf("tape.Force: %d out of [0,%d)", v, n))
	}
	t.Out = append(t.Out, v)
	return v
}

// Raw returns raw bits for strategies in generate mode (0 in replay mode). It
// does not record anything: strategies must funnel their decision through
// Force.
func (t *Tape) Raw() uint64 {
	if t.replay {
		return 0
	}
	return t.rng.Next()
}

// Bool is Int(2)==1.
func (t *Tape) Bool() bool { return t.Int(2) == 1 }

// Chance returns true with probability num/den (false on an exhausted replay).
func (t *Tape) Chance(num, den int) bool {
	if num <= 0 {
		return false
	}
	if num >= den {
		return true
	}
	// the recorded value 0 must mean "no": true for the top num values
	return t.Int(den) >= den-num
}
