// Package simload memoises packages.Load inside the in-process generator
// driver (engine B): a package is listed and type-checked once per process and
// every further moq.New costs microseconds. The key includes a content hash of
// the directory's Go files, so an edited package is loaded again.
package simload

import (
	"crypto/sha256"
	"fmt"
	"os"
	"path/filepath"
	"sort"
	"strings"
	"sync"

	"golang.org/x/tools/go/packages"
)

type entry struct {
	pkgs []*packages.Package
	err  error
}

var (
	mu    sync.Mutex
	memo  = map[string]entry{}
	Hits  int
	Loads int
)

func dirHash(dir string) string {
	es, err := os.ReadDir(dir)
	if err != nil {
		return "unreadable:" + err.Error()
	}
	var names []string
	for _, e := range es {
		if !e.IsDir() && (strings.HasSuffix(e.Name(), ".go") || e.Name() == "go.mod") {
			names = append(names, e.Name())
		}
	}
	sort.Strings(names)
	h := sha256.New()
	for _, n := range names {
		data, _ := os.ReadFile(filepath.Join(dir, n))
		fmt.Fprintf(h, "%s %d\n", n, len(data))
		h.Write(data)
	}
	return fmt.Sprintf("%x", h.Sum(nil)[:12])
}

// Load stands in for packages.Load.
func Load(cfg *packages.Config, patterns ...string) ([]*packages.Package, error) {
	if cfg == nil || cfg.Overlay != nil || cfg.ParseFile != nil || os.Getenv("SIMLOAD_OFF") != "" {
		return packages.Load(cfg, patterns...)
	}
	dir := cfg.Dir
	if !filepath.IsAbs(dir) {
		wd, _ := os.Getwd()
		dir = filepath.Join(wd, dir)
	}
	key := fmt.Sprintf("%s|%d|%v|%v|%v|%s|%s", dir, cfg.Mode, cfg.Tests, cfg.BuildFlags, patterns, strings.Join(cfg.Env, ","), dirHash(dir))
	mu.Lock()
	e, ok := memo[key]
	mu.Unlock()
	if ok {
		Hits++
		return e.pkgs, e.err
	}
	Loads++
	pkgs, err := packages.Load(cfg, patterns...)
	mu.Lock()
	memo[key] = entry{pkgs, err}
	mu.Unlock()
	return pkgs, err
}
