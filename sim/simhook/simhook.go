// Package simhook is what the seam-rewritten scratch copy of moq calls instead
// of ranging over a map, reading the clock or loading packages (engine B,
// gensim). The driver installs a choice function; without one every hook
// behaves canonically (sorted keys, fixed clock).
package simhook

import (
	"fmt"
	"os"
	"reflect"
	"sort"
	"strconv"
	"sync"
	"time"
)

// Choice draws a value in [0,n); 0 must mean "the canonical choice".
type Choice func(n int) int

var (
	choice  Choice
	mu      sync.Mutex
	Sites   = map[string]int{} // range site -> executions with at least 2 keys
	Unowned = map[string]int{} // range sites whose key type has no canonical order
	clockAt time.Time
)

var epoch = time.Date(2021, 3, 4, 5, 6, 7, 0, time.UTC)

func init() {
	clockAt = epoch
	// seamed CLI processes (cross-process comparison): a PRNG-driven order
	if v := os.Getenv("SIMHOOK_SEED"); v != "" {
		if s, err := strconv.ParseUint(v, 10, 64); err == nil {
			st := s
			choice = func(n int) int {
				st += 0x9e3779b97f4a7c15
				z := st
				z = (z ^ (z >> 30)) * 0xbf58476d1ce4e5b9
				z = (z ^ (z >> 27)) * 0x94d049bb133111eb
				z ^= z >> 31
				return int(z % uint64(n))
			}
			clockAt = epoch.Add(time.Duration(s%100000) * time.Hour)
		}
	}
}

// Install sets the choice source (nil = canonical behaviour).
func Install(c Choice) {
	mu.Lock()
	defer mu.Unlock()
	choice = c
}

// SetClock sets the simulated wall clock.
func SetClock(t time.Time) { clockAt = t }

// Epoch is the canonical simulated time.
func Epoch() time.Time { return epoch }

// Now stands in for time.Now: the simulated clock, which also advances a
// little on every reading.
func Now() time.Time {
	mu.Lock()
	defer mu.Unlock()
	clockAt = clockAt.Add(1500 * time.Millisecond)
	return clockAt
}

// Since stands in for time.Since.
func Since(t time.Time) time.Duration { return Now().Sub(t) }

// Until stands in for time.Until.
func Until(t time.Time) time.Duration { return t.Sub(Now()) }

// ResetSites clears the per-site counters.
func ResetSites() {
	mu.Lock()
	defer mu.Unlock()
	Sites = map[string]int{}
	Unowned = map[string]int{}
}

// Keys returns the keys of m in an order the simulator chooses: canonical
// (sorted) order permuted by the installed choice function. Any permutation
// is an order the Go specification allows a range statement to produce.
func Keys[K comparable, V any](m map[K]V, site string) []K {
	keys := make([]K, 0, len(m))
	for k := range m {
		keys = append(keys, k)
	}
	if len(keys) < 2 {
		return keys
	}
	mu.Lock()
	defer mu.Unlock()
	Sites[site]++
	if !canonical(keys) {
		Unowned[site]++
		return keys // native order: not owned by the simulator
	}
	if choice != nil {
		// Fisher-Yates driven by the choice function; a choice of 0 is "no swap"
		for i := 0; i < len(keys)-1; i++ {
			j := i + choice(len(keys)-i)
			keys[i], keys[j] = keys[j], keys[i]
		}
	}
	return keys
}

// canonical sorts keys when their type has a process-independent order.
func canonical[K comparable](keys []K) bool {
	var zero K
	t := reflect.TypeOf(zero)
	if t == nil {
		return false
	}
	if !orderable(t) {
		return false
	}
	sort.Slice(keys, func(i, j int) bool {
		return fmt.Sprintf("%#v", keys[i]) < fmt.Sprintf("%#v", keys[j])
	})
	return true
}

func orderable(t reflect.Type) bool {
	switch t.Kind() {
	case reflect.String, reflect.Bool, reflect.Int, reflect.Int8, reflect.Int16, reflect.Int32, reflect.Int64,
		reflect.Uint, reflect.Uint8, reflect.Uint16, reflect.Uint32, reflect.Uint64, reflect.Uintptr, reflect.Float32, reflect.Float64:
		return true
	case reflect.Array:
		return orderable(t.Elem())
	case reflect.Struct:
		for i := 0; i < t.NumField(); i++ {
			if !orderable(t.Field(i).Type) {
				return false
			}
		}
		return true
	}
	return false
}
