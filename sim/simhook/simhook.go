// Package simhook is what the seam-rewritten scratch copy of moq calls instead
// of ranging over a map, reading the clock or loading packages (engine B,
// gensim). The driver installs a choice function; without one every hook
// behaves canonically (sorted keys, fixed clock).
package simhook

import (
	"fmt"
	"iter"
	"os"
	"reflect"
	"sort"
	"strconv"
	"strings"
	"sync"
	"time"
)

// Choice draws a value in [0,n); 0 must mean "the canonical choice".
type Choice func(n int) int

var (
	choice  Choice
	mu      sync.Mutex
	Sites   = map[string]int{} // range site -> executions with at least 2 keys
	Unowned = map[string]int{} // range sites whose key type has no canonical order
	clockAt time.Time
)

var epoch = time.Date(2021, 3, 4, 5, 6, 7, 0, time.UTC)

func init() {
	clockAt = epoch
	// seamed CLI processes (cross-process comparison): a PRNG-driven order
	if v := os.Getenv("SIMHOOK_SEED"); v != "" {
		if s, err := strconv.ParseUint(v, 10, 64); err == nil {
			st := s
			choice = func(n int) int {
				st += 0x9e3779b97f4a7c15
				z := st
				z = (z ^ (z >> 30)) * 0xbf58476d1ce4e5b9
				z = (z ^ (z >> 27)) * 0x94d049bb133111eb
				z ^= z >> 31
				return int(z % uint64(n))
			}
			clockAt = epoch.Add(time.Duration(s%100000) * time.Hour)
		}
	}
}

// Install sets the choice source (nil = canonical behaviour).
func Install(c Choice) {
	mu.Lock()
	defer mu.Unlock()
	choice = c
}

// SetClock sets the simulated wall clock.
func SetClock(t time.Time) { clockAt = t }

// Epoch is the canonical simulated time.
func Epoch() time.Time { return epoch }

// Now stands in for time.Now: the simulated clock, which also advances a
// little on every reading.
func Now() time.Time {
	mu.Lock()
	defer mu.Unlock()
	clockAt = clockAt.Add(1500 * time.Millisecond)
	return clockAt
}

// Since stands in for time.Since.
func Since(t time.Time) time.Duration { return Now().Sub(t) }

// Until stands in for time.Until.
func Until(t time.Time) time.Duration { return t.Sub(Now()) }

// ResetSites clears the per-site counters.
func ResetSites() {
	mu.Lock()
	defer mu.Unlock()
	Sites = map[string]int{}
	Unowned = map[string]int{}
}

// Keys returns the keys of m in an order the simulator chooses: canonical
// (sorted) order permuted by the installed choice function. Any permutation
// is an order the Go specification allows a range statement to produce.
func Keys[K comparable, V any](m map[K]V, site string) []K {
	keys := make([]K, 0, len(m))
	for k := range m {
		keys = append(keys, k)
	}
	if len(keys) < 2 {
		return keys
	}
	mu.Lock()
	defer mu.Unlock()
	Sites[site]++
	if !canonical(keys) {
		Unowned[site]++
		return keys // native order: not owned by the simulator
	}
	if choice != nil {
		// Fisher-Yates driven by the choice function; a choice of 0 is "no swap"
		for i := 0; i < len(keys)-1; i++ {
			j := i + choice(len(keys)-i)
			keys[i], keys[j] = keys[j], keys[i]
		}
	}
	return keys
}

// canonical sorts keys when their type has a process-independent order:
// scalars and composites of scalars by their printed value; any other key type
// (pointers, interfaces) when every key is a fmt.Stringer and the strings are
// pairwise different (go/types objects, packages and types are: their String
// methods render names and import paths, never addresses).
func canonical[K comparable](keys []K) bool {
	var zero K
	t := reflect.TypeOf(zero)
	if t != nil && orderable(t) {
		sort.Slice(keys, func(i, j int) bool {
			return fmt.Sprintf("%#v", keys[i]) < fmt.Sprintf("%#v", keys[j])
		})
		return true
	}
	strs := make(map[any]string, len(keys))
	seen := make(map[string]bool, len(keys))
	for _, k := range keys {
		st, ok := any(k).(fmt.Stringer)
		if !ok {
			return false
		}
		str, ok := safeString(st)
		if !ok || seen[str] || strings.Contains(str, "0x") {
			return false
		}
		seen[str] = true
		strs[any(k)] = str
	}
	sort.Slice(keys, func(i, j int) bool { return strs[any(keys[i])] < strs[any(keys[j])] })
	return true
}

func safeString(s fmt.Stringer) (str string, ok bool) {
	defer func() {
		if recover() != nil {
			ok = false
		}
	}()
	return reflect.TypeOf(s).String() + ":" + s.String(), true
}

// MapsKeys, MapsValues and MapsAll stand in for the iterators of package maps
// (whose order is a map's iteration order).
func MapsKeys[M ~map[K]V, K comparable, V any](m M) iter.Seq[K] {
	return func(yield func(K) bool) {
		for _, k := range Keys(map[K]V(m), "maps.Keys") {
			if _, ok := m[k]; ok && !yield(k) {
				return
			}
		}
	}
}

func MapsValues[M ~map[K]V, K comparable, V any](m M) iter.Seq[V] {
	return func(yield func(V) bool) {
		for _, k := range Keys(map[K]V(m), "maps.Values") {
			if v, ok := m[k]; ok && !yield(v) {
				return
			}
		}
	}
}

func MapsAll[M ~map[K]V, K comparable, V any](m M) iter.Seq2[K, V] {
	return func(yield func(K, V) bool) {
		for _, k := range Keys(map[K]V(m), "maps.All") {
			if v, ok := m[k]; ok && !yield(k, v) {
				return
			}
		}
	}
}

// XKeys and XValues stand in for golang.org/x/exp/maps.Keys and Values, which
// return slices in iteration order.
func XKeys[M ~map[K]V, K comparable, V any](m M) []K { return Keys(map[K]V(m), "x/exp/maps.Keys") }

func XValues[M ~map[K]V, K comparable, V any](m M) []V {
	vs := make([]V, 0, len(m))
	for _, k := range Keys(map[K]V(m), "x/exp/maps.Values") {
		vs = append(vs, m[k])
	}
	return vs
}

func orderable(t reflect.Type) bool {
	switch t.Kind() {
	case reflect.String, reflect.Bool, reflect.Int, reflect.Int8, reflect.Int16, reflect.Int32, reflect.Int64,
		reflect.Uint, reflect.Uint8, reflect.Uint16, reflect.Uint32, reflect.Uint64, reflect.Uintptr, reflect.Float32, reflect.Float64:
		return true
	case reflect.Array:
		return orderable(t.Elem())
	case reflect.Struct:
		for i := 0; i < t.NumField(); i++ {
			if !orderable(t.Field(i).Type) {
				return false
			}
		}
		return true
	}
	return false
}
