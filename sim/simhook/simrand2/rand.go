// Package simrand2 stands in for math/rand/v2 inside the scratch copy of moq:
// the top-level functions (randomly seeded in the real package) draw from the
// simulated clock's successor function; explicitly seeded generators are the
// real ones.
package simrand2

import (
	"math"
	"math/rand/v2"

	"verif/sim/simhook"
)

func next() uint64 {
	t := simhook.Now().UnixNano()
	z := uint64(t) * 0x9e3779b97f4a7c15
	z = (z ^ (z >> 30)) * 0xbf58476d1ce4e5b9
	return z ^ (z >> 31)
}

type (
	Rand    = rand.Rand
	Source  = rand.Source
	PCG     = rand.PCG
	ChaCha8 = rand.ChaCha8
	Zipf    = rand.Zipf
)

func New(src Source) *Rand              { return rand.New(src) }
func NewPCG(seed1, seed2 uint64) *PCG   { return rand.NewPCG(seed1, seed2) }
func NewChaCha8(seed [32]byte) *ChaCha8 { return rand.NewChaCha8(seed) }

func Int() int                { return int(next() >> 1) }
func IntN(n int) int          { return int(next() % uint64(n)) }
func Int32() int32            { return int32(next() >> 33) }
func Int32N(n int32) int32    { return int32(next() % uint64(n)) }
func Int64() int64            { return int64(next() >> 1) }
func Int64N(n int64) int64    { return int64(next() % uint64(n)) }
func Uint() uint              { return uint(next()) }
func UintN(n uint) uint       { return uint(next() % uint64(n)) }
func Uint32() uint32          { return uint32(next()) }
func Uint32N(n uint32) uint32 { return uint32(next() % uint64(n)) }
func Uint64() uint64          { return next() }
func Uint64N(n uint64) uint64 { return next() % n }
func Float64() float64        { return float64(next()>>11) / (1 << 53) }
func Float32() float32        { return float32(Float64()) }
func ExpFloat64() float64     { return -math.Log(1 - Float64()) }
func NormFloat64() float64    { return (Float64() + Float64() + Float64() + Float64() - 2) * 1.7 }

func N[Int interface {
	~int | ~int8 | ~int16 | ~int32 | ~int64 | ~uint | ~uint8 | ~uint16 | ~uint32 | ~uint64 | ~uintptr
}](n Int) Int {
	return Int(next() % uint64(n))
}

func Perm(n int) []int {
	p := make([]int, n)
	for i := range p {
		p[i] = i
	}
	Shuffle(n, func(i, j int) { p[i], p[j] = p[j], p[i] })
	return p
}

func Shuffle(n int, swap func(i, j int)) {
	for i := n - 1; i > 0; i-- {
		swap(i, IntN(i+1))
	}
}
