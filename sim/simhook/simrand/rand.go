// Package simrand stands in for math/rand inside the scratch copy of moq: every
// value comes from the simulated clock's successor function, so that a
// generator that consults randomness produces run-dependent output which the
// C14 oracle then sees.
package simrand

import (
	"math"
	"math/rand"

	"verif/sim/simhook"
)

func next() uint64 {
	t := simhook.Now().UnixNano()
	z := uint64(t) * 0x9e3779b97f4a7c15
	z = (z ^ (z >> 30)) * 0xbf58476d1ce4e5b9
	return z ^ (z >> 31)
}

func Int() int             { return int(next() >> 1) }
func Intn(n int) int       { return int(next() % uint64(n)) }
func Int31() int32         { return int32(next() >> 33) }
func Int31n(n int32) int32 { return int32(next() % uint64(n)) }
func Int63() int64         { return int64(next() >> 1) }
func Int63n(n int64) int64 { return int64(next() % uint64(n)) }
func Uint32() uint32       { return uint32(next()) }
func Uint64() uint64       { return next() }
func Float64() float64     { return float64(next()>>11) / (1 << 53) }
func Float32() float32     { return float32(Float64()) }
func Seed(int64)           {}
func Perm(n int) []int {
	p := make([]int, n)
	for i := range p {
		p[i] = i
	}
	Shuffle(n, func(i, j int) { p[i], p[j] = p[j], p[i] })
	return p
}
func Shuffle(n int, swap func(i, j int)) {
	for i := n - 1; i > 0; i-- {
		swap(i, Intn(i+1))
	}
}

// An explicitly seeded generator is as deterministic as its seed: these are
// the real ones (a seed taken from the clock comes from the simulated clock).
type (
	Rand   = rand.Rand
	Source = rand.Source
	Zipf   = rand.Zipf
)

func NewSource(seed int64) Source { return rand.NewSource(seed) }
func New(src Source) *Rand        { return rand.New(src) }
func ExpFloat64() float64         { return -math.Log(1 - Float64()) }
func NormFloat64() float64        { return (Float64() + Float64() + Float64() + Float64() - 2) * 1.7 }
func Read(p []byte) (int, error) {
	for i := range p {
		p[i] = byte(next())
	}
	return len(p), nil
}
