// Package clisim is engine C: histories of moq CLI runs on a scratch module,
// with the os package of moq redirected to simos (fault plan + op log), one
// real OS process per invocation. It decides C15, C17 and C18.
package clisim

import (
	"fmt"
	"strings"

	"verif/sim/simos"
	"verif/sim/tape"
)

// Placement of the -out file of a scenario (paths relative to the source
// package directory, which is moq's working directory).
type Placement struct {
	Out       string `json:"out"`
	Pkg       string `json:"pkg"`
	Loaded    bool   `json:"loaded"`             // the file is part of the package moq loads next time
	Writable  bool   `json:"writable"`           // a run can succeed in writing it
	NeedsDirs bool   `json:"needs_dirs"`         // parents are missing initially
	Abs       bool   `json:"abs,omitempty"`      // -out is given as an absolute path
	Symlink   string `json:"symlink,omitempty"`  // -out is a symlink to this file (relative to the link's directory)
	Dangling  bool   `json:"dangling,omitempty"` // ... which does not exist yet
	// Via: the spelling of -out given to moq when it is not Out itself: a path
	// through a symbolic link to a directory followed by "..", which the kernel
	// resolves to Out and which lexical cleaning (filepath.Clean/Abs/Join) folds
	// into another place
	Via string `json:"via,omitempty"`
}

// Placements the generator chooses from.
var Placements = []Placement{
	{Out: "mock_gen.go", Loaded: true, Writable: true},
	{Out: "mock_test.go", Writable: true},
	{Out: "../mocks/m_gen.go", Pkg: "mocks", Writable: true},
	{Out: "../newdir/a/b/m.go", Pkg: "b", Writable: true, NeedsDirs: true},
	{Out: "../blocker/x.go", Pkg: "blocker"},
	{Out: "../adir", Pkg: ""},
	{Out: "sub/m_gen.go", Pkg: "sub", Writable: true, NeedsDirs: true},
	// the same in-place file under other spellings of its path
	{Out: "./mock_gen.go", Loaded: true, Writable: true},
	{Out: "../src/mock_gen.go", Loaded: true, Writable: true},
	{Out: "mock_gen.go", Loaded: true, Writable: true, Abs: true},
	// the destination package named explicitly: the source package itself and its external test package
	{Out: "mock_gen.go", Pkg: "src", Loaded: true, Writable: true},
	{Out: "mock_ext_test.go", Pkg: "src_test", Writable: true},
	// -out is a symbolic link to an existing file elsewhere
	{Out: "../mocks/link_gen.go", Pkg: "mocks", Writable: true, Symlink: "../linktarget/real_gen.go"},
	// ... a link that sits inside the source package itself (what is behind it is loaded with the package)
	{Out: "mock_link_gen.go", Loaded: true, Writable: true, Symlink: "../linktarget/src_real_gen.go"},
	// ... and a dangling one whose relative target means different places from the link's directory and from moq's working directory
	{Out: "../mocks/dangling_gen.go", Pkg: "mocks", Writable: true, Symlink: "gen/new_gen.go", Dangling: true},
	// the external test package named explicitly, but a file name that is not a test file
	{Out: "mock_ext.go", Pkg: "src_test", Loaded: true, Writable: true},
}

// Step kinds.
const (
	StepRun    = "run"
	StepRepeat = "repeat" // the previous run step again, verbatim
	StepDamage = "damage"
	StepEvolve = "evolve"
	StepDelete = "delete"
	StepBreak  = "breaksrc"
	StepFix    = "fixsrc"
)

// Step is one step of a scenario.
type Step struct {
	Kind   string      `json:"kind"`
	Flags  []string    `json:"flags,omitempty"` // -stub -skip-ensure -with-resets -fmt X
	Names  []string    `json:"names,omitempty"`
	Stdout bool        `json:"stdout,omitempty"` // no -out
	Rm     bool        `json:"rm,omitempty"`
	NoArgs bool        `json:"no_args,omitempty"`
	Fault  *simos.Rule `json:"fault,omitempty"`
	// Fault2: a second rule active in the same process (whatever moq falls back
	// to after the first failure meets a failure of its own)
	Fault2 *simos.Rule `json:"fault2,omitempty"`
	Damage string      `json:"damage,omitempty"`
	BadIdx int         `json:"bad_idx,omitempty"`
	Bad    string      `json:"bad,omitempty"` // "", unknown, notiface, badalias
}

// Scenario is a history over one scratch module and one -out path.
type Scenario struct {
	Seed  uint64    `json:"seed"`
	Place Placement `json:"placement"`
	// IncompleteMod: the scratch module's go.mod lacks a requirement the go
	// command could add by itself (every run must fail and touch nothing)
	IncompleteMod bool `json:"incomplete_mod,omitempty"`
	StartAliased  bool `json:"start_aliased,omitempty"` // the source imports scn/dep under an alias at first
	// FromRoot: moq is started in the module root with the source package given
	// as ./src and a relative -out given relative to the root (otherwise: started
	// in the source package directory with ".", as a go:generate line would)
	FromRoot bool `json:"from_root,omitempty"`
	// MainPkg: the source package is a command (package main with func main)
	MainPkg bool `json:"main_pkg,omitempty"`
	// SiblingMock: the source package already holds another moq-generated file
	// (the mock of another go:generate line), which goes stale - and stops the
	// package from type-checking - when the interfaces evolve
	SiblingMock bool `json:"sibling_mock,omitempty"`
	// HardLinked: before every run the -out file, when it is a regular file with
	// one name, gets a second name elsewhere in the tree (a hard link kept as a
	// snapshot); replacing -out must not reach through to that other name
	HardLinked bool `json:"hard_linked,omitempty"`
	// SelfTyped: the runs mock the interfaces of srcSelf (parameters of the
	// package's own interface types, unnamed) under mock names that are what
	// moq derives as parameter names
	SelfTyped bool   `json:"self_typed,omitempty"`
	Steps     []Step `json:"steps"`
}

func (s Step) String() string {
	switch s.Kind {
	case StepRun:
		var p []string
		p = append(p, "moq")
		p = append(p, s.Flags...)
		if s.Rm {
			p = append(p, "-rm")
		}
		if s.Stdout {
			p = append(p, "(stdout)")
		}
		if s.NoArgs {
			p = append(p, "(no interface argument)")
		}
		p = append(p, s.Names...)
		if s.Fault != nil {
			p = append(p, fmt.Sprintf("!fault{%s#%d %s %s %s %d‰}", s.Fault.Prim, s.Fault.Nth, s.Fault.Path, s.Fault.Action, s.Fault.Errno, s.Fault.Frac))
		}
		if s.Fault2 != nil {
			p = append(p, fmt.Sprintf("!then{%s#%d %s %s %d‰}", s.Fault2.Prim, s.Fault2.Nth, s.Fault2.Action, s.Fault2.Errno, s.Fault2.Frac))
		}
		return strings.Join(p, " ")
	case StepDamage:
		return "damage(" + s.Damage + ")"
	}
	return s.Kind
}

func (sc *Scenario) String() string {
	var p []string
	if sc.IncompleteMod {
		p = append(p, "[go.mod incomplete]")
	}
	if sc.FromRoot {
		p = append(p, "[run from the module root on ./src]")
	}
	if sc.MainPkg {
		p = append(p, "[source is package main]")
	}
	if sc.SiblingMock {
		p = append(p, "[another generated mock in the package]")
	}
	if sc.HardLinked {
		p = append(p, "[-out has a second, hard-linked name under keepsake/ before every run]")
	}
	for _, s := range sc.Steps {
		p = append(p, s.String())
	}
	return fmt.Sprintf("out=%s pkg=%q: %s", sc.Place.Out, sc.Place.Pkg, strings.Join(p, " ; "))
}

// Damage kinds.
var damages = []string{"truncate", "garbage", "empty", "otherpkg", "selfdecl", "aliases", "readonly", "readonly", "header", "header", "conflict"}

// Profile tunes scenario generation per property.
type Profile struct {
	FaultPM, BadPM, RmPM, DamagePM, RepeatPM, StdoutPM, InterjectPM, EvolvePM, TemplatePM, FaultTemplatePM int
	Crash                                                                                                  bool
}

// Profiles by property.
var Profiles = map[string]Profile{
	"C15": {FaultPM: 80, BadPM: 40, RmPM: 500, DamagePM: 250, RepeatPM: 250, StdoutPM: 30, EvolvePM: 200, TemplatePM: 350, Crash: true},
	"C17": {FaultPM: 450, BadPM: 250, RmPM: 250, DamagePM: 120, RepeatPM: 120, StdoutPM: 120, InterjectPM: 30, FaultTemplatePM: 300, Crash: true},
	"C18": {FaultPM: 300, BadPM: 250, RmPM: 300, DamagePM: 150, RepeatPM: 100, StdoutPM: 150, InterjectPM: 150, Crash: false},
}

var errnosFor = map[string][]string{
	"open":   {"EACCES", "ENOSPC", "EROFS", "EMFILE", "EISDIR", "EACCES", "EPERM"},
	"write":  {"ENOSPC", "EIO", "EDQUOT"},
	"close":  {"EIO", "ENOSPC"},
	"remove": {"EACCES", "EROFS", "EBUSY"},
	"mkdir":  {"EACCES", "ENOSPC", "EROFS"},
	"rename": {"EACCES", "EXDEV", "ENOSPC"},
	"chmod":  {"EPERM"},
	"sync":   {"EIO"},
}

// GenScenario draws a scenario from the tape. How moq is invoked (from where,
// on what kind of package) is drawn from a side tape of the same seed.
func GenScenario(tp *tape.Tape, seed uint64, pf Profile) *Scenario {
	sc := genScenario(tp, seed, pf)
	side := tape.New(tape.MixS(seed, "invocation"))
	sc.FromRoot = side.Chance(250, 1000)
	inPlace := sc.Place.Pkg == "" && sc.Place.Symlink == "" && sc.Place.Writable
	sc.MainPkg = inPlace && !sc.IncompleteMod && side.Chance(200, 1000)
	sc.SiblingMock = !sc.IncompleteMod && side.Chance(180, 1000)
	if sc.SiblingMock && sc.Place.Writable && side.Chance(600, 1000) {
		// a scripted history for it: generate, let the interfaces evolve (the
		// sibling mock is now stale and the package no longer type-checks),
		// regenerate with and without -rm
		first := genRun(side, Profile{}, sc.Place)
		first.Rm, first.Stdout = false, false
		again := genRun(side, Profile{}, sc.Place)
		again.Rm, again.Stdout = true, false
		sc.Steps = []Step{first, {Kind: StepEvolve, Damage: "shape"}, again, {Kind: StepRepeat}}
		if side.Bool() {
			sc.Steps = []Step{{Kind: StepEvolve, Damage: "shape"}, again, first}
		}
	}
	// a fallback after a failed non-write primitive may fail in turn: a second
	// rule on the writes (or, after a failed open, on whatever is opened next)
	for i := range sc.Steps {
		st := &sc.Steps[i]
		if st.Kind != StepRun || st.Fault == nil || st.Fault.Action != "error" || st.Fault.Prim == "write" || st.Stdout {
			continue
		}
		pm := 350
		if st.Fault.Prim == "open" || st.Fault.Prim == "rename" {
			pm = 700 // the steps whose failure most invites "then do it the other way"
		}
		if !side.Chance(pm, 1000) {
			continue
		}
		f2 := &simos.Rule{Prim: "write", Action: []string{"short", "error", "short"}[side.Int(3)], Errno: errnosFor["write"][side.Int(3)], Frac: []int{1, 500, 999}[side.Int(3)]}
		if f2.Action == "error" {
			f2.Frac = 0
		}
		st.Fault2 = f2
	}
	// drawn from a tape of their own, so that the scenarios of earlier versions
	// of this generator stay what they were
	sur := tape.New(tape.MixS(seed, "surroundings"))
	sc.HardLinked = sc.Place.Writable && sc.Place.Symlink == "" && sur.Chance(200, 1000)
	sc.SelfTyped = !sc.IncompleteMod && sur.Chance(150, 1000)
	if sc.Place.Out == "mock_gen.go" && !sc.Place.Abs && sc.Place.Pkg == "" && sur.Chance(300, 1000) {
		// lnk -> deep/er in the module root: src/../lnk/../../src is src for the kernel
		sc.Place.Via = "../lnk/../../src/mock_gen.go"
		sc.FromRoot = false
	}
	if sc.HardLinked {
		runs := 0
		for _, st := range sc.Steps {
			if st.Kind == StepRun || st.Kind == StepRepeat {
				runs++
			}
		}
		if runs < 2 {
			// a second generation whose bytes differ from the first
			sc.Steps = append(sc.Steps, Step{Kind: StepEvolve, Damage: "shape"}, genRun(sur, Profile{RmPM: 300}, sc.Place))
		}
	}
	if sc.SelfTyped {
		lists := [][]string{{"Registry", "Handler:handler"}, {"Handler:handler", "Registry:registry"}, {"Registry:registryMock", "Alpha:alpha", "Handler:handler"}, {"Registry", "Alpha:alpha"}, {"Handler:handler", "Registry"}}
		for i := range sc.Steps {
			st := &sc.Steps[i]
			if st.Kind == StepRun && st.Bad == "" && !st.NoArgs {
				st.Names = append([]string(nil), lists[sur.Int(len(lists))]...)
			}
		}
	}
	return sc
}

func genScenario(tp *tape.Tape, seed uint64, pf Profile) *Scenario {
	sc := &Scenario{Seed: seed}
	// writable placements are more interesting; unwritable ones are failure inputs
	if tp.Chance(150, 1000) {
		sc.Place = Placements[4+tp.Int(2)]
	} else {
		w := []int{0, 0, 0, 1, 2, 3, 6, 7, 8, 9, 10, 11, 12, 12, 13, 13, 14, 15}
		sc.Place = Placements[w[tp.Int(len(w))]]
	}
	sc.IncompleteMod = tp.Chance(70, 1000)
	sc.StartAliased = tp.Bool()
	if pf.FaultTemplatePM > 0 && tp.Chance(pf.FaultTemplatePM, 1000) {
		// a scripted fault history: a first clean run, then something that
		// changes what the failure path has to cope with, then a run with a fault
		sc.IncompleteMod = false
		sc.Place = Placements[[]int{0, 0, 1, 2, 7, 9, 10, 12}[tp.Int(8)]]
		first := genRun(tp, Profile{}, sc.Place)
		first.Rm, first.Stdout = false, false
		faulty := genRun(tp, Profile{FaultPM: 1000, Crash: false}, sc.Place)
		faulty.Stdout = false
		prims := []string{"rename", "rename", "close", "write", "sync", "chmod", "open"}
		pr := prims[tp.Int(len(prims))]
		faulty.Fault = &simos.Rule{Prim: pr, Nth: tp.Int(2), Action: "error", Errno: errnosFor[pr][tp.Int(len(errnosFor[pr]))]}
		switch tp.Int(4) {
		case 0:
			sc.Steps = []Step{first, {Kind: StepDamage, Damage: "readonly"}, faulty, {Kind: StepRepeat}}
		case 1:
			crash := first
			crash.Fault = &simos.Rule{Prim: []string{"rename", "write", "close", "chmod"}[tp.Int(4)], Action: "crash", Frac: 500}
			sc.Steps = []Step{first, crash, genRun(tp, Profile{}, sc.Place), faulty}
		case 2:
			sc.Steps = []Step{first, {Kind: StepEvolve, Damage: "shape"}, faulty, {Kind: StepRepeat}}
		default:
			sc.Steps = []Step{first, faulty, {Kind: StepRepeat}}
		}
		return sc
	}
	if pf.TemplatePM > 0 && tp.Chance(pf.TemplatePM, 1000) {
		// a scripted regeneration history with random flags: generate in place,
		// change something, regenerate with -rm (and once more without)
		sc.IncompleteMod = false
		sc.Place = Placements[[]int{0, 0, 7, 8, 9, 10, 13}[tp.Int(7)]]
		first := genRun(tp, Profile{}, sc.Place)
		first.Rm = false
		again := first
		again.Rm = true
		var mid Step
		switch tp.Int(5) {
		case 0, 1:
			sc.StartAliased = true
			mid = Step{Kind: StepEvolve, Damage: "alias"}
		case 2:
			mid = Step{Kind: StepEvolve, Damage: "shape"}
		case 3:
			mid = Step{Kind: StepDamage, Damage: damages[tp.Int(len(damages))]}
		default:
			mid = Step{Kind: StepRepeat}
		}
		sc.Steps = []Step{first, mid, again, {Kind: StepRepeat}}
		return sc
	}
	n := 1 + tp.Int(5)
	hadRun := false
	broken := false
	for i := 0; i < n; i++ {
		r := tp.Int(1000)
		switch {
		case hadRun && r >= 1000-pf.RepeatPM:
			sc.Steps = append(sc.Steps, Step{Kind: StepRepeat})
		case hadRun && r >= 1000-pf.RepeatPM-pf.DamagePM:
			sc.Steps = append(sc.Steps, Step{Kind: StepDamage, Damage: damages[tp.Int(len(damages))]})
		case hadRun && r >= 1000-pf.RepeatPM-pf.DamagePM-80-pf.EvolvePM:
			sc.Steps = append(sc.Steps, Step{Kind: StepEvolve, Damage: []string{"shape", "alias", "alias"}[tp.Int(3)]})
		case hadRun && r >= 1000-pf.RepeatPM-pf.DamagePM-110-pf.EvolvePM:
			sc.Steps = append(sc.Steps, Step{Kind: StepDelete})
		case r >= 1000-pf.RepeatPM-pf.DamagePM-140-pf.EvolvePM && r < 1000-pf.RepeatPM-pf.DamagePM-110-pf.EvolvePM:
			if broken {
				sc.Steps = append(sc.Steps, Step{Kind: StepFix})
			} else {
				sc.Steps = append(sc.Steps, Step{Kind: StepBreak})
			}
			broken = !broken
		default:
			sc.Steps = append(sc.Steps, genRun(tp, pf, sc.Place))
			hadRun = true
		}
	}
	if !hadRun {
		sc.Steps = append(sc.Steps, genRun(tp, pf, sc.Place))
	}
	return sc
}

func genRun(tp *tape.Tape, pf Profile, pl Placement) Step {
	st := Step{Kind: StepRun}
	if tp.Bool() {
		st.Flags = append(st.Flags, "-stub")
	}
	if tp.Bool() {
		st.Flags = append(st.Flags, "-skip-ensure")
	}
	if tp.Bool() {
		st.Flags = append(st.Flags, "-with-resets")
	}
	switch tp.Int(4) {
	case 1:
		st.Flags = append(st.Flags, "-fmt", "goimports")
	case 2:
		st.Flags = append(st.Flags, "-fmt", "noop")
	case 3:
		st.Flags = append(st.Flags, "-fmt", "gofmt")
	}
	lists := [][]string{{"Alpha"}, {"Alpha", "Beta"}, {"Beta", "Alpha"}, {"Alpha:MyAlpha", "Beta"}, {"Gamma"}, {"Alpha", "Gamma", "Beta"}, {"Beta"},
		{"Codec"}, {"Codec", "Alpha"}, {"Beta", "Codec"}, {"Enc", "Dec"}}
	st.Names = append([]string(nil), lists[tp.Int(len(lists))]...)
	st.Rm = tp.Chance(pf.RmPM, 1000)
	st.Stdout = tp.Chance(pf.StdoutPM, 1000)
	if tp.Chance(pf.BadPM, 1000) {
		st.Bad = []string{"unknown", "notiface", "badalias", "noargs"}[tp.Int(4)]
		st.BadIdx = tp.Int(len(st.Names) + 1)
		bad := map[string]string{"unknown": "Nope", "notiface": "NotIface", "badalias": "Beta:bad-alias"}[st.Bad]
		if st.Bad == "noargs" {
			st.NoArgs = true
			st.Names = nil
		} else {
			ns := append([]string(nil), st.Names[:st.BadIdx]...)
			ns = append(ns, bad)
			st.Names = append(ns, st.Names[st.BadIdx:]...)
		}
	}
	ipm := pf.InterjectPM
	if pl.NeedsDirs && ipm > 0 {
		ipm = 500 // directories moq creates are where another actor's file is most at risk
		if tp.Bool() && st.Bad == "" {
			st.Bad, st.BadIdx = "unknown", len(st.Names)
			st.Names = append(st.Names, "Nope")
		}
	}
	if tp.Chance(ipm, 1000) && !st.Stdout {
		// another actor drops a file next to what moq just touched
		st.Fault = &simos.Rule{Prim: []string{"mkdir", "mkdir", "open", "remove"}[tp.Int(4)], Nth: tp.Int(2), Action: "interject"}
		return st
	}
	if tp.Chance(pf.FaultPM, 1000) {
		prims := []string{"write", "write", "write", "open", "close", "mkdir", "remove", "rename", "rename", "sync", "chmod"}
		if st.Stdout {
			prims = []string{"write"}
		}
		f := &simos.Rule{Prim: prims[tp.Int(len(prims))]}
		if f.Prim != "write" && tp.Int(3) == 0 {
			f.Nth = 1 + tp.Int(2) // not the first such call but a later one
		}
		es := errnosFor[f.Prim]
		f.Errno = es[tp.Int(len(es))]
		f.Action = "error"
		if f.Prim == "write" {
			switch tp.Int(4) {
			case 0:
				f.Action = "error" // nothing lands
			default:
				f.Action = "short"
				f.Frac = []int{1, 500, 999, 250}[tp.Int(4)]
			}
			if pf.Crash && tp.Bool() {
				f.Action = "crash"
				f.Frac = []int{0, 1, 500, 999}[tp.Int(4)]
			}
			if pf.Crash && f.Action != "crash" && tp.Int(6) == 0 {
				f.Action = "crash"
			}
			if st.Stdout {
				f.Path = "<stdout>"
				if tp.Int(3) == 0 {
					// a real failing destination instead of an injected one:
					// the process's standard output is /dev/full
					f.Action, f.Errno = "devfull", "ENOSPC"
				}
			}
		}
		if pf.Crash && f.Prim != "write" && tp.Int(4) == 0 {
			f.Action = "crash" // the process dies right before this primitive
		}
		st.Fault = f
	}
	return st
}
