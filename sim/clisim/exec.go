package clisim

import (
	"bufio"
	"bytes"
	"crypto/sha256"
	"encoding/hex"
	"encoding/json"
	"fmt"
	"io/fs"
	"os"
	"os/exec"
	"path/filepath"
	"sort"
	"strings"
	"sync"
	"time"

	"verif/sim/simos"
)

// Finding is one oracle failure.
type Finding struct {
	Prop   string `json:"property"`
	Class  string `json:"class"`
	Site   string `json:"site,omitempty"` // fault site / input that makes the finding specific
	Detail string `json:"detail"`
	Step   int    `json:"step"`
}

// Key identifies a finding for minimisation and known-finding matching.
func (f Finding) Key() string { return f.Prop + "/" + f.Class }

// Signature is class@site.
func (f Finding) Signature() string {
	if f.Site == "" {
		return f.Class
	}
	return f.Class + "@" + f.Site
}

// Stats counts what a scenario exercised.
type Stats struct {
	Steps, MoqRuns int
	FaultsFired    map[string]int
	FaultsUnfired  int
	Outcomes       map[string]int
	Priors         map[string]int
	Trace          []string
	Sig            string
}

// Runner executes scenarios.
type Runner struct {
	MoqBin string   // moq built with os -> simos
	Env    []string // MoqEnv
	Base   string   // scratch directory for scenario modules

	// scenario-local (Run works on a private copy of the Runner)
	orderSeed uint64
	stepSeq   int
	plan2     *simos.Rule // second rule of the next faulty process
}

var usageCache sync.Map // moq binary -> map[string]bool

// usageLines returns the lines moq prints to standard error for -h: the flag
// defaults, which it also prints after every error. They are not a diagnostic.
func (r *Runner) usageLines() map[string]bool {
	if u, ok := usageCache.Load(r.MoqBin); ok {
		return u.(map[string]bool)
	}
	usage := map[string]bool{}
	cmd := exec.Command(r.MoqBin, "-h")
	cmd.Env = r.Env
	var se bytes.Buffer
	cmd.Stderr = &se
	cmd.Run()
	for _, l := range strings.Split(se.String(), "\n") {
		usage[strings.TrimSpace(l)] = true
	}
	usageCache.Store(r.MoqBin, usage)
	return usage
}

// diagnostic returns what standard error holds beyond the usage text.
func (r *Runner) diagnostic(stderr []byte) string {
	u := r.usageLines()
	var rest []string
	for _, l := range strings.Split(string(stderr), "\n") {
		if t := strings.TrimSpace(l); t != "" && !u[t] {
			rest = append(rest, t)
		}
	}
	return strings.Join(rest, "\n")
}

const srcV = `package src

import (
	"context"

	%s"scn/dep"
)

type Alpha interface {
	Get(ctx context.Context, id string) (*%s.Item, error)
	Put(item %s.Item%s) error%s
}

type Beta interface {
	Each(fn func(%s.Item) bool)
	Len() int%s
}

type Gamma[T any] interface {
	Pick(xs ...T) T
}

type NotIface struct{ X int }
`

const srcEnc = `package src

import "scn/sigs/yaml"

// Enc and Dec use two packages that are both called yaml; neither file gives
// them an alias, so moq has to invent one.
type Enc interface {
	Encode(n *yaml.Node) error
}
`

const srcDec = `package src

import "scn/gopkg/yaml.v3"

type Dec interface {
	Unmarshal(data []byte) (*yaml.Node, error)
}

type Codec interface {
	Enc
	Dec
}
`

// srcVersion renders the source package: v selects the shape of the
// interfaces, aliased whether the file imports scn/dep under the name dp.
func srcVersion(v int, aliased bool) string {
	imp, q := "", "dep"
	if aliased {
		imp, q = "dp ", "dp"
	}
	switch v % 3 {
	case 0:
		return fmt.Sprintf(srcV, imp, q, q, "", "", q, "")
	case 1:
		return fmt.Sprintf(srcV, imp, q, q, ", force bool", "\n\tDel(id string) error", q, "")
	default:
		return fmt.Sprintf(srcV, imp, q, q, ", force bool", "\n\tDel(id string) error", q, "\n\tName() string")
	}
}

type fileState struct {
	Mode fs.FileMode
	Hash string
	Dir  bool
	Link string
}

func snapshot(root string) map[string]fileState {
	out := map[string]fileState{}
	filepath.WalkDir(root, func(p string, d fs.DirEntry, err error) error {
		if err != nil {
			return nil
		}
		rel, _ := filepath.Rel(root, p)
		info, err := d.Info()
		if err != nil {
			return nil
		}
		st := fileState{Mode: info.Mode(), Dir: d.IsDir()}
		switch {
		case info.Mode()&fs.ModeSymlink != 0:
			st.Link, _ = os.Readlink(p)
		case info.Mode().IsRegular():
			data, _ := os.ReadFile(p)
			h := sha256.Sum256(data)
			st.Hash = hex.EncodeToString(h[:8])
		}
		out[rel] = st
		return nil
	})
	return out
}

type procResult struct {
	Exit     int
	Stdout   []byte
	Stderr   []byte
	Log      []simos.LogEntry
	TimedOut bool
}

// runMoqStdout runs moq with its standard output connected to a real file
// (e.g. /dev/full, where every write fails with ENOSPC).
func (r *Runner) runMoqStdout(cwd string, args []string, stdout string, tmp string) procResult {
	return r.runMoqTo(cwd, args, nil, tmp, stdout)
}

func (r *Runner) runMoq(cwd string, args []string, plan *simos.Rule, tmp string) procResult {
	return r.runMoqTo(cwd, args, plan, tmp, "")
}

func (r *Runner) runMoqTo(cwd string, args []string, plan *simos.Rule, tmp string, stdoutPath string) procResult {
	env := append([]string(nil), r.Env...)
	// the processes of one step (the run, its stdout-mode references) iterate
	// their maps in the same reproducible order, those of another step in
	// another one: an order dependence (C14's business) then shows as a
	// repetition that differs, not as a file that differs from its reference
	env = append(env, fmt.Sprintf("SIMHOOK_SEED=%d", r.orderSeed*1000003+uint64(r.stepSeq)))
	logPath := filepath.Join(tmp, "oplog.jsonl")
	os.Remove(logPath)
	env = append(env, "SIMOS_LOG="+logPath)
	if plan != nil {
		pp := filepath.Join(tmp, "plan.json")
		rules := []*simos.Rule{plan}
		if r.plan2 != nil {
			rules = append(rules, r.plan2)
		}
		data, _ := json.Marshal(rules)
		os.WriteFile(pp, data, 0o644)
		env = append(env, "SIMOS_PLAN="+pp)
	}
	cmd := exec.Command(r.MoqBin, args...)
	cmd.Dir = cwd
	cmd.Env = env
	var so, se bytes.Buffer
	cmd.Stdout, cmd.Stderr = &so, &se
	if stdoutPath != "" {
		if f, err := os.OpenFile(stdoutPath, os.O_WRONLY, 0); err == nil {
			defer f.Close()
			cmd.Stdout = f
		}
	}
	res := procResult{}
	if err := cmd.Start(); err != nil {
		res.Exit = -1
		res.Stderr = []byte(err.Error())
		return res
	}
	done := make(chan error, 1)
	go func() { done <- cmd.Wait() }()
	select {
	case err := <-done:
		if err != nil {
			if ee, ok := err.(*exec.ExitError); ok {
				res.Exit = ee.ExitCode()
			} else {
				res.Exit = -1
			}
		}
	case <-time.After(15 * time.Minute):
		cmd.Process.Kill()
		<-done
		res.TimedOut = true
		res.Exit = -2
	}
	res.Stdout, res.Stderr = so.Bytes(), se.Bytes()
	if f, err := os.Open(logPath); err == nil {
		sc := bufio.NewScanner(f)
		sc.Buffer(make([]byte, 1<<20), 1<<20)
		for sc.Scan() {
			var e simos.LogEntry
			if json.Unmarshal(sc.Bytes(), &e) == nil {
				res.Log = append(res.Log, e)
			}
		}
		f.Close()
	}
	return res
}

// RunPlain runs moq without any fault plan and returns its exit status.
func (r *Runner) RunPlain(cwd string, args []string, tmp string) int {
	return r.runMoq(cwd, args, nil, tmp).Exit
}

func looksLikeSource(b []byte) bool {
	return bytes.Contains(b, []byte("Code generated by moq")) || bytes.Contains(b, []byte("func (mock ")) ||
		bytes.Contains(b, []byte("struct {\n"))
}

func copyDir(src, dst string) error {
	return filepath.WalkDir(src, func(p string, d fs.DirEntry, err error) error {
		if err != nil {
			return err
		}
		rel, _ := filepath.Rel(src, p)
		t := filepath.Join(dst, rel)
		if d.IsDir() {
			return os.MkdirAll(t, 0o755)
		}
		if d.Type()&fs.ModeSymlink != 0 {
			l, err := os.Readlink(p)
			if err != nil {
				return err
			}
			return os.Symlink(l, t)
		}
		data, err := os.ReadFile(p)
		if err != nil {
			return err
		}
		info, _ := d.Info()
		return os.WriteFile(t, data, info.Mode().Perm())
	})
}

func setup(root string, sc *Scenario) error {
	files := map[string]string{
		"go.mod":                     "module scn\n\ngo 1.24\n",
		"src/src.go":                 srcVersion(0, sc.StartAliased),
		"src/enc.go":                 srcEnc,
		"src/dec.go":                 srcDec,
		"sigs/yaml/yaml.go":          "package yaml\n\ntype Node struct{ Kind int }\n",
		"gopkg/yaml.v3/yaml.go":      "package yaml\n\ntype Node struct{ Tag string }\n",
		"linktarget/real_gen.go":     "package mocks\n\n// placeholder that -out points at through a symbolic link\n",
		"linktarget/src_real_gen.go": "package src\n\n// placeholder behind a symbolic link that sits inside the source package\n",
		"dep/dep.go":                 "package dep\n\ntype Item struct {\n\tID   string\n\tSize int\n}\n",
		"blocker":                    "this is a regular file where a directory is wanted\n",
		"adir/keep.txt":              "keep\n",
		"mocks/doc.go":               "// Package mocks holds generated mocks.\npackage mocks\n",
		"sibling/s.go":               "package sibling\n\nconst Untouched = true\n",
		"sibling/data.bin":           "\x00\x01\x02binary",
	}
	for rel, content := range files {
		p := filepath.Join(root, rel)
		if err := os.MkdirAll(filepath.Dir(p), 0o755); err != nil {
			return err
		}
		if err := os.WriteFile(p, []byte(content), 0o644); err != nil {
			return err
		}
	}
	// hand-maintained neighbours of -out whose names merely start like it
	if outDir := filepath.Dir(filepath.Clean(filepath.Join(root, "src", sc.Place.Out))); sc.Place.Writable && !sc.Place.NeedsDirs {
		base := filepath.Base(sc.Place.Out)
		os.WriteFile(filepath.Join(outDir, base+".tmpl"), []byte("template kept next to the mock\n"), 0o644)
		os.WriteFile(filepath.Join(outDir, base+".tmp.bak"), []byte("somebody's backup\n"), 0o644)
	}
	if sc.Place.Dangling {
		os.MkdirAll(filepath.Join(root, "mocks", "gen"), 0o755)
		os.MkdirAll(filepath.Join(root, "src", "gen"), 0o755)
	}
	if sc.Place.Symlink != "" {
		link := filepath.Clean(filepath.Join(root, "src", sc.Place.Out))
		if err := os.Symlink(sc.Place.Symlink, link); err != nil {
			return err
		}
	}
	if sc.MainPkg {
		es, _ := os.ReadDir(filepath.Join(root, "src"))
		for _, e := range es {
			if p := filepath.Join(root, "src", e.Name()); strings.HasSuffix(p, ".go") {
				if b, err := os.ReadFile(p); err == nil {
					os.WriteFile(p, []byte(asPkg(sc, string(b))), 0o644)
				}
			}
		}
		os.WriteFile(filepath.Join(root, "src", "main.go"), []byte("package main\n\nfunc main() {}\n"), 0o644)
	}
	if sc.IncompleteMod {
		// src needs example.com/dep1, which needs example.com/dep2; the main
		// go.mod replaces both but requires only dep1: "updates to go.mod needed"
		extra := map[string]string{
			"go.mod":             "module scn\n\ngo 1.24\n\nrequire example.com/dep1 v0.0.0\n\nreplace example.com/dep1 => ./third/dep1\n\nreplace example.com/dep2 => ./third/dep2\n",
			"third/dep1/go.mod":  "module example.com/dep1\n\ngo 1.24\n\nrequire example.com/dep2 v0.0.0\n",
			"third/dep1/dep1.go": "package dep1\n\nimport \"example.com/dep2\"\n\ntype One struct{ Two dep2.Two }\n",
			"third/dep2/go.mod":  "module example.com/dep2\n\ngo 1.24\n",
			"third/dep2/dep2.go": "package dep2\n\ntype Two struct{ V int }\n",
			"src/uses_dep1.go":   "package src\n\nimport \"example.com/dep1\"\n\ntype Third interface{ One() dep1.One }\n",
		}
		for rel, content := range extra {
			p := filepath.Join(root, rel)
			os.MkdirAll(filepath.Dir(p), 0o755)
			if err := os.WriteFile(p, []byte(content), 0o644); err != nil {
				return err
			}
		}
	}
	return nil
}

// asPkg renders a file of the source package under the package name the
// scenario gives it.
func asPkg(sc *Scenario, src string) string {
	if sc.MainPkg && strings.HasPrefix(src, "package src\n") {
		return "package main\n" + strings.TrimPrefix(src, "package src\n")
	}
	return src
}

// model of the scenario's world, kept by the driver
type world struct {
	outReal   string // where a symlinked -out really lives ("" otherwise)
	version   int
	aliased   bool
	readonly  bool // the -out file was made read-only (0444) and not replaced since
	broken    bool
	prior     string // absent, own, stale, truncate, garbage, empty, otherpkg, selfdecl, aliases, torn, dir
	lastRun   *Step
	lastBytes []byte
	lastOK    bool
	touched   bool // something changed since lastRun (damage, evolve, ...)
}

// Run executes a scenario in a fresh scratch module and returns findings.
func (shared *Runner) Run(sc *Scenario, id string) ([]Finding, *Stats, error) {
	r := &Runner{MoqBin: shared.MoqBin, Env: shared.Env, Base: shared.Base, orderSeed: sc.Seed % 1000000007}
	st := &Stats{FaultsFired: map[string]int{}, Outcomes: map[string]int{}, Priors: map[string]int{}}
	root := filepath.Join(r.Base, "scn-"+id)
	os.RemoveAll(root)
	if err := setup(filepath.Join(root, "m"), sc); err != nil {
		return nil, st, err
	}
	defer os.RemoveAll(root)
	M := filepath.Join(root, "m")
	tmp := filepath.Join(root, "tmp")
	os.MkdirAll(tmp, 0o755)
	srcDir := filepath.Join(M, "src")
	outAbs := filepath.Clean(filepath.Join(srcDir, sc.Place.Out))
	outRel, _ := filepath.Rel(M, outAbs)
	outReal := ""
	if sc.Place.Symlink != "" {
		outReal = filepath.Clean(filepath.Join(filepath.Dir(outAbs), sc.Place.Symlink))
	}
	w := &world{prior: "absent", broken: sc.IncompleteMod, outReal: outReal, aliased: sc.StartAliased}
	if sc.Place.Symlink != "" && !sc.Place.Dangling {
		w.prior = "placeholder" // the link's target exists and is valid Go of the destination package
	}
	if sc.Place.Out == "../adir" {
		w.prior = "dir"
	}
	var fs []Finding
	san := func(s string) string { return strings.ReplaceAll(s, root, "$SCRATCH") }
	add := func(step int, prop, class, site, format string, a ...any) {
		fs = append(fs, Finding{Prop: prop, Class: class, Site: site, Step: step, Detail: san(fmt.Sprintf(format, a...))})
	}
	tr := func(format string, a ...any) { st.Trace = append(st.Trace, san(fmt.Sprintf(format, a...))) }

	for i := 0; i < len(sc.Steps); i++ {
		step := sc.Steps[i]
		st.Steps++
		if step.Kind == StepRepeat {
			if w.lastRun == nil {
				continue
			}
			rep := *w.lastRun
			rep.Fault = nil
			step = rep
			step.Kind = StepRun
			tr("step %d: repeat previous run", i)
		}
		switch step.Kind {
		case StepDamage:
			if !sc.Place.Writable {
				continue
			}
			cur, err := os.ReadFile(outAbs)
			pkg := sc.Place.Pkg
			if pkg == "" {
				pkg = "src"
				if sc.MainPkg {
					pkg = "main"
				}
			}
			if step.Damage == "readonly" {
				// not damage to the bytes: the generated file is kept read-only (0444)
				if err == nil {
					os.Chmod(outAbs, 0o444)
					w.readonly = true
					w.touched = true
					tr("step %d: -out made read-only (0444)", i)
				}
				continue
			}
			var content []byte
			switch step.Damage {
			case "truncate":
				if err != nil || len(cur) < 10 {
					content = []byte("package " + pkg + "\n\nfunc broken( {\n")
				} else {
					content = cur[:len(cur)/2]
				}
			case "garbage":
				content = []byte("\x00\x01\x02 this is not Go \xff\xfe\n")
			case "empty":
				content = nil
			case "otherpkg":
				content = []byte("package somethingelse\n\nvar X = 1\n")
			case "selfdecl":
				content = []byte("package " + pkg + "\n\ntype AlphaMock struct{ Stale int }\n")
			case "aliases":
				content = []byte("package " + pkg + "\n\nimport ctx2 \"context\"\n\nvar _ ctx2.Context\n")
			case "header":
				// what stands before the package clause: a build constraint that is off
				// by default, a licence comment and a cgo-style directive comment, on
				// top of the present content (or a stale declaration)
				body := cur
				if err != nil || len(cur) < 10 {
					body = []byte("package " + pkg + "\n\ntype AlphaMock struct{ Parked int }\n")
				}
				content = append([]byte("//go:build parked && !never\n// +build parked\n\n// Copyright the owners. Hand-edited.\n\n"), body...)
			case "conflict":
				// an unresolved merge above the package clause
				content = append([]byte("<<<<<<< HEAD\npackage "+pkg+"\n=======\npackage "+pkg+"_old\n>>>>>>> theirs\n\n"), cur...)
			}
			os.MkdirAll(filepath.Dir(outAbs), 0o755)
			if err := os.WriteFile(outAbs, content, 0o644); err != nil {
				continue
			}
			w.prior = step.Damage
			w.touched = true
			tr("step %d: damage -out with %q (%d bytes)", i, step.Damage, len(content))
		case StepEvolve:
			if step.Damage == "alias" {
				w.aliased = !w.aliased
			} else {
				w.version++
			}
			os.WriteFile(filepath.Join(srcDir, "src.go"), []byte(asPkg(sc, srcVersion(w.version, w.aliased))), 0o644)
			if w.prior == "own" {
				w.prior = "stale"
			}
			w.touched = true
			tr("step %d: source evolves (%s): interface version %d, dep imported with alias: %v", i, step.Damage, w.version, w.aliased)
		case StepDelete:
			if sc.Place.Writable {
				os.Remove(outAbs)
				w.prior = "absent"
				w.touched = true
				tr("step %d: delete -out", i)
			}
		case StepBreak:
			os.WriteFile(filepath.Join(srcDir, "zz_broken.go"), []byte(asPkg(sc, "package src\n\nfunc oops( {\n")), 0o644)
			w.broken = true
			w.touched = true
			tr("step %d: source package gets a syntax error", i)
		case StepFix:
			os.Remove(filepath.Join(srcDir, "zz_broken.go"))
			w.broken = sc.IncompleteMod
			w.touched = true
			tr("step %d: source package repaired", i)
		case StepRun:
			r.runStep(sc, i, step, w, M, srcDir, outAbs, outRel, tmp, st, add, tr)
		}
	}
	h := sha256.Sum256([]byte(strings.Join(st.Trace, "\n")))
	st.Sig = hex.EncodeToString(h[:8])
	return fs, st, nil
}

func (r *Runner) runStep(sc *Scenario, i int, step Step, w *world, M, srcDir, outAbs, outRel, tmp string, st *Stats,
	add func(step int, prop, class, site, format string, a ...any), tr func(format string, a ...any)) {
	pl := sc.Place
	r.stepSeq = i + 1
	useOut := !step.Stdout
	var base []string
	base = append(base, step.Flags...)
	if pl.Pkg != "" && useOut {
		base = append(base, "-pkg", pl.Pkg)
	}
	srcArg := "."
	cwdIn := func(root string) string { return filepath.Join(root, "src") }
	if sc.FromRoot {
		srcArg = "./src"
		cwdIn = func(root string) string { return root }
	}
	tail := []string{srcArg}
	tail = append(tail, step.Names...)
	if step.NoArgs {
		tail = []string{srcArg}
	}
	st.Priors[w.prior]++

	preBytes, preErr := os.ReadFile(outAbs)
	preExists := preErr == nil
	preInfo, _ := os.Lstat(outAbs)
	preIsDir := preInfo != nil && preInfo.IsDir()

	// ---- reference: the same command printing to stdout, in a copy of the
	// pre-state (with -out removed first when -rm is given)
	refRoot := filepath.Join(filepath.Dir(tmp), "ref")
	os.RemoveAll(refRoot)
	copyDir(M, refRoot)
	if step.Rm && useOut && preExists && !preIsDir {
		os.Remove(filepath.Join(refRoot, outRel))
	}
	refPre := snapshot(refRoot)
	refArgs := append(append([]string(nil), base...), tail...)
	ref := r.runMoq(cwdIn(refRoot), refArgs, nil, tmp)
	st.MoqRuns++
	refPost := snapshot(refRoot)
	refOK := ref.Exit == 0
	for _, d := range diffTrees(refPre, refPost, "") {
		add(i, "C18", "tree-changed-without-out", "", "moq %s (no -out) changed the tree: %s", strings.Join(refArgs, " "), d)
	}
	for _, e := range ref.Log {
		if mutating(e) && strings.HasPrefix(e.Path, refRoot+string(filepath.Separator)) {
			add(i, "C18", "wrote-without-out", e.Prim, "moq %s (no -out) performed %s %s", strings.Join(refArgs, " "), e.Prim, relTo(refRoot, e.Path))
		}
	}
	// a source package with a broken sibling file is left to the differential
	// oracle: a moq that can still load what it needs may succeed
	mustFail := step.NoArgs || (step.Bad != "" && step.Bad != "noargs" && !(step.Bad == "badalias" && hasFmtNoop(step.Flags)))
	checkFailure := func(what string, res procResult, args []string) {
		if res.TimedOut {
			add(i, "C17", "hang", "", "%s: moq %s did not terminate", what, strings.Join(args, " "))
			return
		}
		if res.Exit == 0 {
			return
		}
		if r.diagnostic(res.Stderr) == "" {
			add(i, "C17", "failure-without-diagnostic", failureSite(step), "%s: moq %s exited %d but standard error holds nothing beyond the usage text", what, strings.Join(args, " "), res.Exit)
		}
		if looksLikeSource(res.Stdout) {
			add(i, "C17", "source-on-stdout-on-failure", failureSite(step), "%s: moq %s exited %d but printed generated source to stdout (%d bytes)", what, strings.Join(args, " "), res.Exit, len(res.Stdout))
		}
	}
	checkFailure("stdout mode", ref, refArgs)
	if mustFail && refOK {
		add(i, "C17", "exit-zero-on-failure", failureSite(step), "moq %s must fail (%s) but exited 0", strings.Join(refArgs, " "), failureSite(step))
	}
	if !useOut {
		// the step itself is a stdout run, possibly with a failing stdout
		if step.Fault == nil {
			st.Outcomes[outcomeName(refOK)]++
			tr("step %d: %s -> exit %d, %d bytes on stdout", i, step, ref.Exit, len(ref.Stdout))
			w.lastRun, w.touched = copyStep(step), false
			return
		}
		pre := snapshot(M)
		var act procResult
		if step.Fault.Action == "devfull" {
			act = r.runMoqStdout(cwdIn(M), refArgs, "/dev/full", tmp)
			act.Log = append(act.Log, simos.LogEntry{Prim: "real-stdout", Path: "/dev/full", Fault: "devfull:ENOSPC"})
		} else {
			act = r.runMoq(cwdIn(M), refArgs, step.Fault, tmp)
		}
		st.MoqRuns++
		post := snapshot(M)
		fired := firedFaults(act.Log)
		countFaults(st, step.Fault, fired)
		tr("step %d: %s -> exit %d, faults fired %v", i, step, act.Exit, fired)
		for _, f := range fired {
			if strings.HasPrefix(f, "crash") {
				// a killed process promises nothing
				st.Outcomes["crashed"]++
				w.lastRun, w.touched = copyStep(step), true
				return
			}
		}
		// standard output is itself the failing destination here: bytes the
		// injected short write let through are not moq's doing, so only the
		// exit status and the diagnostic are checked
		if act.Exit != 0 && r.diagnostic(act.Stderr) == "" {
			add(i, "C17", "failure-without-diagnostic", "stdout-write:"+step.Fault.Action, "moq %s exited %d but standard error holds nothing beyond the usage text", strings.Join(refArgs, " "), act.Exit)
		}
		if len(fired) > 0 && act.Exit == 0 {
			add(i, "C17", "exit-zero-on-failure", "stdout-write:"+step.Fault.Action, "writing to standard output failed (%s) but moq %s exited 0", step.Fault.Errno, strings.Join(refArgs, " "))
		}
		for _, d := range diffTrees(pre, post, "") {
			add(i, "C18", "tree-changed-without-out", "", "moq %s (no -out) changed the tree: %s", strings.Join(refArgs, " "), d)
		}
		st.Outcomes[outcomeName(act.Exit == 0)]++
		w.lastRun, w.touched = copyStep(step), false
		return
	}

	// ---- the actual run
	args := append([]string(nil), base...)
	outArg := pl.Out
	if sc.FromRoot {
		outArg = outRel
	}
	if pl.Abs {
		outArg = outAbs
	}
	args = append(args, "-out", outArg)
	if step.Rm {
		args = append(args, "-rm")
	}
	args = append(args, tail...)
	pre := snapshot(M)
	r.plan2 = step.Fault2
	act := r.runMoq(cwdIn(M), args, step.Fault, tmp)
	r.plan2 = nil
	// priorMatters: the very same -out command, run where nothing is at the
	// -out path (the reference copy, from which -rm's target was removed),
	// yields the reference output - so what was there before made the difference
	// (C15's business); otherwise the cause does not depend on the prior content
	priorMatters := func() bool {
		a2 := append([]string(nil), args...)
		for k := range a2 {
			if a2[k] == outAbs {
				a2[k] = filepath.Join(refRoot, outRel)
			}
		}
		res := r.runMoq(cwdIn(refRoot), a2, nil, tmp)
		st.MoqRuns++
		got, err := os.ReadFile(filepath.Join(refRoot, outRel))
		return res.Exit == 0 && err == nil && bytes.Equal(got, ref.Stdout)
	}
	st.MoqRuns++
	post := snapshot(M)
	fired := firedFaults(act.Log)
	countFaults(st, step.Fault, fired)
	crashed := false
	for _, f := range fired {
		if strings.HasPrefix(f, "crash") {
			crashed = true
		}
	}
	postBytes, postErr := os.ReadFile(outAbs)
	postExists := postErr == nil
	cmdline := "moq " + strings.Join(args, " ")
	tr("step %d: %s [prior=%s] -> exit %d, faults fired %v, -out %s", i, cmdline, w.prior, act.Exit, fired, describeOut(postExists || preIsDir, postBytes, ref.Stdout))

	if crashed {
		// a killed process promises nothing (used to manufacture prior states)
		if postExists && !bytes.Equal(postBytes, preBytes) {
			w.prior = "torn"
		}
		st.Outcomes["crashed"]++
		w.lastRun, w.touched = copyStep(step), true
		return
	}
	// C18: nothing but -out and the directories leading to it
	// a temporary file may stay behind only if the attempt to remove it was
	// itself failed by injection (nothing can clean up then)
	excused := map[string]bool{}
	for _, e := range act.Log {
		if e.Prim == "remove" && e.Fault != "" {
			excused["created "+relTo(M, e.Path)] = true
		}
		if e.Prim == "interject" && e.Err == "" {
			excused["created "+relTo(M, e.Path)] = true
			if _, err := os.Stat(e.Path); err != nil {
				add(i, "C18", "foreign-file-deleted", "", "%s deleted %s, a file another process created while moq was running", cmdline, relTo(M, e.Path))
			}
			// the next step must not see it as part of the tree
			defer os.Remove(e.Path)
		}
	}
	realRel := ""
	if w.outReal != "" {
		realRel, _ = filepath.Rel(M, w.outReal)
	}
	for _, d := range diffTrees(pre, post, outRel) {
		if excused[d] || (realRel != "" && strings.HasSuffix(d, " "+realRel)) {
			continue
		}
		add(i, "C18", "tree-changed-outside-out", "", "%s changed the tree outside -out: %s", cmdline, d)
	}
	for _, e := range act.Log {
		if !mutating(e) || !(strings.HasPrefix(e.Path, M+string(filepath.Separator)) || strings.HasPrefix(e.Path2, M+string(filepath.Separator))) {
			continue // only the source tree is the property's business (a temporary file under /tmp is not)
		}
		if !allowedPath(e, outAbs) && !(w.outReal != "" && allowedPath(e, w.outReal)) && !transientSibling(e, M, pre, outAbs, w.outReal) {
			add(i, "C18", "mutation-outside-out", e.Prim, "%s performed %s on %s", cmdline, e.Prim, relTo(M, e.Path))
		}
	}
	checkFailure("-out mode", act, args)
	if act.Exit == 0 {
		st.Outcomes["success"]++
		switch {
		case mustFail || !pl.Writable:
			add(i, "C17", "exit-zero-on-failure", failureSite(step), "%s must fail (%s) but exited 0", cmdline, failureSiteOr(step, "unwritable destination"))
		}
		// an injected failure followed by exit 0 is acceptable exactly when the
		// complete file is there all the same (a fallback route, or a failure
		// of something optional such as a directory sync): compared below
		if !refOK {
			// the same command fails when printing to stdout from the same state:
			// fine if the old -out file was what broke it and moq has stopped
			// letting that file block its own regeneration (then the result must
			// be what the command prints with the old file out of the way)
			if !mustFail && !r.equalsRefWithoutPrior(step, preExists, preIsDir, refRoot, cwdIn(refRoot), outRel, refArgs, tmp, postBytes, st) {
				add(i, "C17", "out-mode-succeeds-where-stdout-mode-fails", "", "%s exited 0 but the same command without -out fails (%s), also with the old file removed, or the file differs from that output", cmdline, firstLine(ref.Stderr))
			}
		} else if !postExists {
			add(i, "C17", "success-without-file", "", "%s exited 0 but %s does not exist", cmdline, pl.Out)
		} else if !bytes.Equal(postBytes, ref.Stdout) && !r.equalsRefWithoutPrior(step, preExists, preIsDir, refRoot, cwdIn(refRoot), outRel, refArgs, tmp, postBytes, st) {
			prop, class := "C17", "success-incomplete-or-different-file"
			if step.Rm && w.prior != "absent" && priorMatters() {
				prop, class = "C15", "rm-result-depends-on-prior-content"
			}
			add(i, prop, class, "prior="+w.prior, "%s exited 0 but %s (%d bytes) differs from what the same command prints to stdout from the same state%s (%d bytes)",
				cmdline, pl.Out, len(postBytes), map[bool]string{true: " with the old file removed", false: ""}[step.Rm], len(ref.Stdout))
		}
		if len(act.Stdout) > 0 && looksLikeSource(act.Stdout) {
			add(i, "C17", "source-on-stdout-with-out", "", "%s wrote the file and also printed source to stdout", cmdline)
		}
		// C15 (a): fixed point
		if w.lastRun != nil && w.lastOK && !w.touched && sameCommand(*w.lastRun, step) && pl.Writable {
			if !bytes.Equal(w.lastBytes, postBytes) {
				add(i, "C15", "not-a-fixed-point", "", "%s run twice with its own output left in place produced different bytes (%d then %d)", cmdline, len(w.lastBytes), len(postBytes))
			}
		}
		w.prior, w.lastBytes, w.lastOK, w.readonly = "own", postBytes, true, false
	} else {
		st.Outcomes["failure"]++
		// (a clean refusal to overwrite something moq did not write, or a
		// read-only file, is not forbidden: success is demanded only over
		// nothing, over moq's own output, or when -rm was given)
		if refOK && len(fired) == 0 && pl.Writable && !mustFail && !w.readonly && (step.Rm || w.prior == "absent" || w.prior == "own" || w.prior == "stale") {
			// nothing failed that we know of, stdout mode works: -out mode must too
			prop, class := "C17", "unexpected-failure"
			if step.Rm && w.prior != "absent" && priorMatters() {
				prop, class = "C15", "rm-did-not-neutralise-prior-content"
			}
			add(i, prop, class, "prior="+w.prior, "%s exited %d (%s) although the same command without -out succeeds from the same state", cmdline, act.Exit, firstLine(act.Stderr))
		}
		// -out must be exactly as before (or gone, under -rm)
		switch {
		case preIsDir:
			// a directory at -out: covered by the tree comparison
		case preExists && postExists && !bytes.Equal(preBytes, postBytes):
			add(i, "C17", "out-file-changed-on-failure", faultSite(step.Fault), "%s failed (exit %d: %s) but %s changed: %d bytes before, %d bytes after",
				cmdline, act.Exit, firstLine(act.Stderr), pl.Out, len(preBytes), len(postBytes))
			w.prior = "torn"
		case preExists && postExists && !step.Rm && preInfo != nil && func() bool {
			pi, err := os.Lstat(outAbs)
			return err == nil && pi.Mode() != preInfo.Mode()
		}():
			add(i, "C17", "out-file-changed-on-failure", faultSite(step.Fault), "%s failed (exit %d) but the mode of %s changed", cmdline, act.Exit, pl.Out)
		case preExists && !postExists && !step.Rm:
			add(i, "C17", "out-file-removed-on-failure", faultSite(step.Fault), "%s failed (exit %d) and %s is gone although -rm was not given", cmdline, act.Exit, pl.Out)
			w.prior = "absent"
		case preExists && !postExists && step.Rm:
			w.prior = "absent"
		case !preExists && postExists:
			add(i, "C17", "out-file-created-on-failure", faultSite(step.Fault), "%s failed (exit %d: %s) but left a new %s of %d bytes",
				cmdline, act.Exit, firstLine(act.Stderr), pl.Out, len(postBytes))
			w.prior = "torn"
		}
		w.lastOK = false
	}
	w.lastRun, w.touched = copyStep(step), false
}

// equalsRefWithoutPrior: without -rm the old content of -out may or may not
// influence the new file (both are acceptable: the property only fixes the
// -rm case); a file that differs from the stdout-mode reference taken with the
// old file in place is still complete and correct if it equals the reference
// taken with the old file removed.
func (r *Runner) equalsRefWithoutPrior(step Step, preExists, preIsDir bool, refRoot, refCwd, outRel string, refArgs []string, tmp string, got []byte, st *Stats) bool {
	if step.Rm || !preExists || preIsDir {
		return false
	}
	if err := os.Remove(filepath.Join(refRoot, outRel)); err != nil {
		return false
	}
	ref2 := r.runMoq(refCwd, refArgs, nil, tmp)
	st.MoqRuns++
	return ref2.Exit == 0 && bytes.Equal(got, ref2.Stdout)
}

// wroteAfterLastFault reports whether, after the last injected failure, moq
// still completed a write of -out (a full write to it, or a rename onto it).
func wroteAfterLastFault(log []simos.LogEntry, outAbs, outReal string) bool {
	last := -1
	for i, e := range log {
		if e.Fault != "" {
			last = i
		}
	}
	for _, e := range log[last+1:] {
		if e.Err != "" {
			continue
		}
		isOut := func(p string) bool { return p == outAbs || (outReal != "" && p == outReal) }
		if e.Prim == "rename" && isOut(e.Path2) {
			return true
		}
		if e.Prim == "write" && isOut(e.Path) && e.Done == e.N {
			return true
		}
	}
	return false
}

func stdoutWrites(log []simos.LogEntry) int {
	n := 0
	for _, e := range log {
		if e.Prim == "write" && e.Path == "<stdout>" {
			n++
		}
	}
	return n
}

func copyStep(s Step) *Step { c := s; return &c }

func outcomeName(ok bool) string {
	if ok {
		return "success"
	}
	return "failure"
}

func hasFmtNoop(flags []string) bool {
	for i, f := range flags {
		if f == "-fmt" && i+1 < len(flags) && flags[i+1] == "noop" {
			return true
		}
	}
	return false
}

func failureSite(s Step) string {
	switch {
	case s.NoArgs:
		return "no-interface-argument"
	case s.Bad != "":
		return fmt.Sprintf("%s-at-%d", s.Bad, s.BadIdx)
	}
	return ""
}

func failureSiteOr(s Step, def string) string {
	if f := failureSite(s); f != "" {
		return f
	}
	return def
}

func faultSite(r *simos.Rule) string {
	if r == nil {
		return ""
	}
	return r.Prim + ":" + r.Action
}

func firstLine(b []byte) string {
	s := strings.TrimSpace(string(b))
	if i := strings.IndexByte(s, '\n'); i >= 0 {
		s = s[:i]
	}
	if len(s) > 200 {
		s = s[:200]
	}
	return s
}

func describeOut(exists bool, got, ref []byte) string {
	switch {
	case !exists:
		return "absent"
	case bytes.Equal(got, ref):
		return fmt.Sprintf("= reference (%d bytes)", len(got))
	}
	return fmt.Sprintf("%d bytes (reference %d)", len(got), len(ref))
}

func sameCommand(a, b Step) bool {
	return strings.Join(a.Flags, " ") == strings.Join(b.Flags, " ") && strings.Join(a.Names, " ") == strings.Join(b.Names, " ") &&
		a.Stdout == b.Stdout && a.NoArgs == b.NoArgs && a.Rm == b.Rm
}

func mutating(e simos.LogEntry) bool {
	switch e.Prim {
	case "remove", "mkdir", "rename", "chmod", "truncate", "symlink", "link":
		return e.Err == "" || e.Fault != ""
	case "open":
		return e.Flags&(os.O_WRONLY|os.O_RDWR|os.O_CREATE|os.O_TRUNC|os.O_APPEND) != 0
	case "write":
		return !strings.HasPrefix(e.Path, "<")
	}
	return false
}

// allowedPath: -out itself, a directory leading to it, or a sibling temporary
// file in -out's directory (which must be gone at exit: the tree comparison
// checks that).
func allowedPath(e simos.LogEntry, outAbs string) bool {
	ok := func(p string) bool {
		if p == "" {
			return true
		}
		if p == outAbs {
			return true
		}
		if strings.HasPrefix(outAbs, p+string(filepath.Separator)) {
			return true // ancestor directory
		}
		if filepath.Dir(p) == filepath.Dir(outAbs) && strings.Contains(filepath.Base(p), strings.TrimSuffix(filepath.Base(outAbs), ".go")) {
			return true // temp sibling derived from the -out name
		}
		return false
	}
	return ok(e.Path) && ok(e.Path2)
}

// transientSibling: a file in -out's directory that did not exist before the
// run (whether it is gone again at exit is the tree comparison's business).
func transientSibling(e simos.LogEntry, M string, pre map[string]fileState, outAbs, outReal string) bool {
	ok := func(p string) bool {
		if p == "" || p == outAbs || p == outReal {
			return true
		}
		// the first path element below -out's directory (a sibling file, or a
		// staging directory and whatever is put into it) must be new
		for _, base := range []string{filepath.Dir(outAbs), filepath.Dir(outReal)} {
			if base == "." || base == "" {
				continue
			}
			rel, err := filepath.Rel(base, p)
			if err != nil || rel == "." || strings.HasPrefix(rel, "..") {
				continue
			}
			first := strings.SplitN(rel, string(filepath.Separator), 2)[0]
			if _, existed := pre[relTo(M, filepath.Join(base, first))]; !existed {
				return true
			}
		}
		return false
	}
	return ok(e.Path) && ok(e.Path2)
}

func relTo(root, p string) string {
	if r, err := filepath.Rel(root, p); err == nil && !strings.HasPrefix(r, "..") {
		return r
	}
	return p
}

func firedFaults(log []simos.LogEntry) []string {
	var out []string
	for _, e := range log {
		if e.Fault != "" {
			out = append(out, e.Fault+"@"+e.Prim)
		}
	}
	return out
}

func countFaults(st *Stats, plan *simos.Rule, fired []string) {
	if plan == nil {
		return
	}
	if len(fired) == 0 {
		st.FaultsUnfired++
		return
	}
	for _, f := range fired {
		st.FaultsFired[f]++
	}
}

// diffTrees lists differences between two snapshots, ignoring the -out path
// and directories leading to it.
func diffTrees(a, b map[string]fileState, outRel string) []string {
	var out []string
	skip := func(p string) bool {
		if outRel == "" {
			return false
		}
		if p == outRel {
			return true
		}
		if !strings.HasPrefix(outRel, p+string(filepath.Separator)) {
			return false
		}
		// a directory leading to -out (created or already there); a regular
		// file in that position is not excused
		x, inA := a[p]
		y, inB := b[p]
		return (!inA || x.Dir) && (!inB || y.Dir)
	}
	keys := map[string]bool{}
	for k := range a {
		keys[k] = true
	}
	for k := range b {
		keys[k] = true
	}
	var ks []string
	for k := range keys {
		ks = append(ks, k)
	}
	sort.Strings(ks)
	for _, k := range ks {
		if skip(k) {
			continue
		}
		x, inA := a[k]
		y, inB := b[k]
		switch {
		case inA && !inB:
			out = append(out, "deleted "+k)
		case !inA && inB:
			out = append(out, "created "+k)
		case x.Dir && y.Dir:
			// directory mtime/mode changes through child creation are not content
			if x.Mode.Perm() != y.Mode.Perm() {
				out = append(out, "chmod "+k)
			}
		case x != y:
			out = append(out, "modified "+k)
		}
	}
	return out
}
