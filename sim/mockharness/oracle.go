package mockharness

import (
	"fmt"
	"strings"
	"time"

	"github.com/anishathalye/porcupine"
)

// Finding is one oracle failure, attributed to the property whose statement
// it contradicts.
type Finding struct {
	Prop   string `json:"property"`
	Class  string `json:"class"`
	Detail string `json:"detail"`
}

// Key identifies a finding for minimisation ("same violation class for the
// same property").
func (f Finding) Key() string { return f.Prop + "/" + f.Class }

// LinStats counts what the linearizability checker did.
type LinStats struct {
	Checked, Skipped, Unknown int
}

// MaxLinOps bounds the history length handed to porcupine.
const MaxLinOps = 24

// Check evaluates every oracle over one run's observations.
func Check(obs *Obs, lin *LinStats) []Finding {
	var fs []Finding
	add := func(prop, class, format string, a ...any) {
		fs = append(fs, Finding{Prop: prop, Class: class, Detail: fmt.Sprintf(format, a...)})
	}
	c := obs.Cell
	for _, n := range obs.Notes {
		add("HARNESS", "unsupported", "%s", n)
	}
	if !c.staticDone {
		c.staticFs = append(c.staticMethodSet(), c.staticRecordTypes()...)
		c.staticDone = true
	}
	fs = append(fs, c.staticFs...)
	for _, v := range obs.Sim.Viol {
		switch v.Class {
		case "data-race", "sync-misuse":
			add("C05", v.Class, "%s", v.Detail)
		case "deadlock", "no-progress", "blocked-callback-blocks-others":
			add("C06", v.Class, "%s", v.Detail)
		default:
			add("HARNESS", v.Class, "%s", v.Detail)
		}
	}
	nilF := map[string]bool{}
	for _, n := range obs.Plan.NilFuncs {
		nilF[n] = true
	}
	// ---- C06 direct: no mock lock held while user code runs
	for _, r := range obs.Recs {
		if r.Op.Kind == OpCall && r.CbCount > 0 && len(r.CbHeld) > 0 {
			add("C06", "lock-held-in-callback", "%sFunc (op %d, task %d) entered while the calling goroutine holds %s",
				r.Op.Method, r.Op.ID, r.Task, strings.Join(r.CbHeld, ","))
		}
	}
	for _, s := range obs.ForeignCb {
		add("C03", "foreign-function-invoked", "%s", s)
	}
	for _, s := range obs.WrongTask {
		add("C03", "callback-on-other-goroutine", "%s", s)
	}
	for _, r := range obs.Recs {
		if r.SnapChanged != "" {
			add("C04", "snapshot-mutated", "slice returned by %sCalls() (op %d) changed afterwards: %s", r.Op.Method, r.Op.ID, r.SnapChanged)
		}
	}
	if !obs.Complete {
		// a call that entered the mock and never came back delegated nothing
		// the caller could observe (the same event C06 reports as a deadlock)
		if !obs.Sim.Aborted() || len(obs.Sim.Viol) > 0 {
			for _, r := range obs.Recs {
				if r.Op.Kind == OpCall && !r.NilFunc && r.InvSeq > 0 && r.Outcome == "aborted" && r.CbCount == 0 {
					add("C03", "call-never-delegated", "%s (op %d, task %d) entered the mock and never reached %sFunc nor returned: the run is stuck (%s)",
						r.Op.Method, r.Op.ID, r.Task, r.Op.Method, firstViol(obs))
					break
				}
			}
		}
		return fs
	}

	// ---- C03 / C07 per call
	for _, r := range obs.Recs {
		if r.Op.Kind != OpCall || !r.Done || r.Outcome == "aborted" {
			continue
		}
		o := r.Op
		if r.NilFunc {
			if c.Flags.Stub {
				switch {
				case r.Outcome != "return":
					add("C07", "stub-did-not-return", "%s with nil %sFunc under -stub: %s %s", o.Method, o.Method, r.Outcome, r.PanicText)
				default:
					for i, z := range r.GotZero {
						if !z {
							add("C07", "stub-nonzero-result", "%s with nil %sFunc under -stub: result %d is not the zero value", o.Method, o.Method, i)
						}
					}
					if m := c.method(o.Method); len(r.Got) != len(m.Out) {
						add("C07", "stub-nonzero-result", "%s: %d results, want %d", o.Method, len(r.Got), len(m.Out))
					}
					if !r.PostHas && (len(obs.Plan.Tasks) == 1 || !hasResetFor(obs, o.Method)) {
						add("C07", "stub-call-not-recorded", "%s with nil %sFunc under -stub (op %d) left no record", o.Method, o.Method, o.ID)
					}
				}
			} else {
				if r.Outcome != "panic" || strings.HasPrefix(r.PanicText, "sentinel(") {
					add("C07", "nil-func-no-panic", "%s with nil %sFunc: outcome %s %s", o.Method, o.Method, r.Outcome, r.PanicText)
				} else if miss := panicTextMissing(r.PanicText, c, o.Method); miss != "" {
					add("C07", "panic-text", "%s with nil %sFunc panicked with %q which does not name %s", o.Method, o.Method, r.PanicText, miss)
				}
			}
			continue
		}
		switch {
		case r.CbCount == 0:
			add("C03", "function-not-invoked", "%s (op %d): %sFunc was set but not invoked (outcome %s %s)", o.Method, o.ID, o.Method, r.Outcome, r.PanicText)
			continue
		case r.CbCount > 1:
			add("C03", "function-invoked-twice", "%s (op %d): %sFunc invoked %d times", o.Method, o.ID, o.Method, r.CbCount)
		}
		if !r.CbGoidOK {
			add("C03", "callback-on-other-goroutine", "%s (op %d): %sFunc ran on another goroutine than the caller", o.Method, o.ID, o.Method)
		}
		if len(r.CbArgs) != len(r.Args) {
			add("C03", "arguments-changed", "%s (op %d): function saw %d arguments, caller passed %d", o.Method, o.ID, len(r.CbArgs), len(r.Args))
		} else {
			for i := range r.Args {
				if r.Args[i] != r.CbArgs[i] {
					m := c.method(o.Method)
					what := ""
					if m.Variadic && i == len(r.Args)-1 {
						what = " (variadic tail: not the same slice)"
					}
					add("C03", "arguments-changed", "%s (op %d): argument %d seen by %sFunc is not the value passed (%s)%s", o.Method, o.ID, i, o.Method, r.ArgsDesc[i], what)
				}
			}
		}
		want := expectOutcome(o, nilF, c.Flags.Stub)
		if r.Outcome != want {
			add("C03", "outcome-changed", "%s (op %d): function ended by %s but caller observed %s %s", o.Method, o.ID, want, r.Outcome, r.PanicText)
			continue
		}
		switch want {
		case "return":
			if !equalStrings(r.Got, r.Want) {
				add("C03", "results-changed", "%s (op %d): caller did not receive the %d values %sFunc returned", o.Method, o.ID, len(r.Want), o.Method)
			}
		case "panic":
			if !r.PanicSame {
				add("C03", "panic-changed", "%s (op %d): caller observed %s, not the value %sFunc panicked with", o.Method, o.ID, r.PanicText, o.Method)
			}
		}
	}

	// ---- C04 / C08: sequential list model
	if len(obs.Plan.Tasks) == 1 {
		fs = append(fs, checkSequential(obs)...)
	}
	// ---- C04 (in-callback visibility), also under concurrency when no reset interferes
	for _, r := range obs.Recs {
		if r.Op.Kind == OpCall && r.CbCount > 0 && r.CbSelfVis == 0 {
			add("C04", "not-recorded-before-function", "%s (op %d): its record was not in %sCalls() when %sFunc started", r.Op.Method, r.Op.ID, r.Op.Method, r.Op.Method)
		}
		if len(obs.Plan.Tasks) == 1 && r.Op.Kind == OpCall && r.CbCount > 0 && r.CbSelfVis == 1 && !r.CbSelfLast {
			add("C04", "not-recorded-before-function", "%s (op %d): its record was not the last element of %sCalls() when %sFunc started", r.Op.Method, r.Op.ID, r.Op.Method, r.Op.Method)
		}
	}

	// ---- C05: conservation, program order, prefix, linearizability
	fs = append(fs, checkConcurrent(obs, lin)...)
	return fs
}

func firstViol(obs *Obs) string {
	if len(obs.Sim.Viol) == 0 {
		return "no progress"
	}
	return obs.Sim.Viol[0].Class
}

func hasResetFor(obs *Obs, method string) bool {
	found := false
	var walk func(os []*Op)
	walk = func(os []*Op) {
		for _, o := range os {
			if o.Kind == OpResetAll || (o.Kind == OpReset && o.Method == method) {
				found = true
			}
			walk(o.Nested)
		}
	}
	for _, t := range obs.Plan.Tasks {
		walk(t)
	}
	return found
}

// panicTextMissing returns what the nil-function panic message fails to name:
// the mock type, the function field and the interface method must each occur
// as a whole identifier (a name shared by two roles must occur twice).
func panicTextMissing(text string, c *Cell, method string) string {
	count := map[string]int{}
	for _, tok := range strings.FieldsFunc(text, func(r rune) bool {
		return !(r == '_' || r >= '0' && r <= '9' || r >= 'a' && r <= 'z' || r >= 'A' && r <= 'Z' || r > 127)
	}) {
		count[tok]++
	}
	for _, need := range []struct{ name, what string }{
		{c.MockName, "the mock type " + c.MockName},
		{method + "Func", "the function field " + method + "Func"},
		{method, "the interface method " + method},
	} {
		if count[need.name] == 0 {
			return need.what
		}
		count[need.name]--
	}
	return ""
}

// expectOutcome computes how a call must end for the caller, from the plan.
func expectOutcome(o *Op, nilF map[string]bool, stub bool) string {
	if nilF[o.Method] {
		if stub {
			return "return"
		}
		return "panic"
	}
	switch o.Beh {
	case BehPanic:
		return "panic"
	case BehGoexit:
		return "goexit"
	case BehReenter:
		for _, n := range o.Nested {
			switch n.Kind {
			case OpCall:
				if expectOutcome(n, nilF, stub) == "goexit" {
					return "goexit"
				}
			case "end-panic":
				return "panic"
			}
		}
	}
	return "return"
}

func recorded(r *OpRec, stub bool) bool {
	if r.Op.Kind != OpCall {
		return false
	}
	if r.NilFunc && !stub {
		return r.PostHas // the model takes no position: adopt what happened
	}
	return true
}

func checkSequential(obs *Obs) []Finding {
	var fs []Finding
	c := obs.Cell
	add := func(prop, class, format string, a ...any) {
		fs = append(fs, Finding{Prop: prop, Class: class, Detail: fmt.Sprintf(format, a...)})
	}
	var names []string
	for _, m := range c.methods {
		names = append(names, m.Name)
	}
	for _, n := range names {
		if obs.FreshLens[n] != 0 {
			add("C04", "fresh-mock-nonempty", "%sCalls() of a zero-value mock has %d records", n, obs.FreshLens[n])
		}
	}
	model := map[string][]string{}
	// the same model with every reset ignored: a discrepancy is the reset API's
	// (C08) only when it is what one sees if a reset did not (lastingly) clear
	noReset := map[string][]string{}
	resetSeen := false
	cmp := func(where string, method string, got []string) {
		want := model[method]
		if equalStrings(got, want) {
			return
		}
		d := fmt.Sprintf("%s: %sCalls() = %s, model = %s", where, method, descTuples(obs, got), descTuples(obs, want))
		add("C04", "records-differ-from-model", "%s", d)
		if resetSeen && len(got) > len(want) && len(got) <= len(noReset[method]) && equalStrings(got[len(got)-len(want):], want) {
			// records from before a reset are (still or again) there
			add("C08", "records-differ-after-reset", "%s", d)
		}
	}
	for _, r := range obs.Recs {
		switch r.Op.Kind {
		case OpCall:
			if recorded(r, c.Flags.Stub) {
				model[r.Op.Method] = append(model[r.Op.Method][:len(model[r.Op.Method]):len(model[r.Op.Method])], r.Tuple)
				noReset[r.Op.Method] = append(noReset[r.Op.Method][:len(noReset[r.Op.Method]):len(noReset[r.Op.Method])], r.Tuple)
			}
		case OpCalls:
			if r.Done {
				cmp(fmt.Sprintf("op %d", r.Op.ID), r.Op.Method, r.Snap)
			}
		case OpReset, OpResetAll:
			resetSeen = true
			before := map[string][]string{}
			for _, n := range names {
				before[n] = model[n]
			}
			if r.Op.Kind == OpReset {
				model[r.Op.Method] = nil
			} else {
				for _, n := range names {
					model[n] = nil
				}
			}
			if r.PostAll != nil {
				for _, n := range names {
					got := r.PostAll[n]
					if equalStrings(got, model[n]) {
						continue
					}
					what := "was not emptied"
					if len(model[n]) != 0 {
						what = "was changed although it was not named"
					}
					add("C08", "reset-wrong-scope", "after %s (op %d) the record of %s %s: %s, expected %s", r.Op.String(), r.Op.ID, n, what,
						descTuples(obs, got), descTuples(obs, model[n]))
				}
			}
		}
	}
	for _, n := range names {
		cmp("after quiescence", n, obs.Final[n])
	}
	return fs
}

type interval struct{ a, b uint64 }

func checkConcurrent(obs *Obs, lin *LinStats) []Finding {
	var fs []Finding
	c := obs.Cell
	add := func(prop, class, format string, a ...any) {
		fs = append(fs, Finding{Prop: prop, Class: class, Detail: fmt.Sprintf(format, a...)})
	}
	endSeq := obs.Sim.Seq()
	for _, m := range c.methods {
		M := m.Name
		var calls []*OpRec
		var snaps []*OpRec
		var resets []interval
		for _, r := range obs.Recs {
			switch {
			case r.Op.Kind == OpCall && r.Op.Method == M && recorded(r, c.Flags.Stub):
				calls = append(calls, r)
			case r.Op.Kind == OpCalls && r.Op.Method == M && r.Done:
				snaps = append(snaps, r)
			case r.Done && (r.Op.Kind == OpResetAll || (r.Op.Kind == OpReset && r.Op.Method == M)):
				resets = append(resets, interval{r.InvSeq, r.RetSeq})
			}
		}
		final := obs.Final[M]
		// conservation
		count := map[string]int{}
		byTuple := map[string]*OpRec{}
		uniq := true
		for _, r := range calls {
			if count[r.Tuple] > 0 {
				uniq = false
			}
			count[r.Tuple]++
			byTuple[r.Tuple] = r
		}
		seen := map[string]int{}
		for _, t := range final {
			seen[t]++
		}
		reported := map[string]bool{}
		for _, t := range final { // in record order: deterministic
			if reported[t] {
				continue
			}
			reported[t] = true
			if count[t] == 0 {
				add("C05", "record-matches-no-call", "%sCalls() after quiescence holds a record that equals the arguments of no call (torn or corrupted)", M)
			} else if seen[t] > count[t] {
				add("C05", "record-duplicated", "%s: record of op %d appears %d times for %d call(s)", M, byTuple[t].Op.ID, seen[t], count[t])
			}
		}
		if len(resets) == 0 {
			reported = map[string]bool{}
			for _, r := range calls { // in start order: deterministic
				t := r.Tuple
				if reported[t] {
					continue
				}
				reported[t] = true
				if seen[t] < count[t] {
					add("C05", "record-lost", "%s: %d call(s) with the arguments of op %d, %d record(s) after quiescence (%d calls, %d records in total)",
						M, count[t], byTuple[t].Op.ID, seen[t], len(calls), len(final))
				}
			}
		}
		// program order
		if uniq {
			pos := map[string]int{}
			for i, t := range final {
				pos[t] = i
			}
			last := map[int]*OpRec{}
			for _, r := range calls { // obs.Recs is in start order, which is program order per task
				p, ok := pos[r.Tuple]
				if !ok {
					continue
				}
				if prev := last[r.Task]; prev != nil && pos[prev.Tuple] > p {
					add("C05", "program-order", "%s: task %d called op %d before op %d but their records are in the opposite order", M, r.Task, prev.Op.ID, r.Op.ID)
				}
				last[r.Task] = r
			}
		}
		// prefix
		all := append([]*OpRec{}, snaps...)
		all = append(all, &OpRec{Op: &Op{ID: -1, Kind: OpCalls, Method: M}, Snap: final, InvSeq: endSeq + 1, RetSeq: endSeq + 2, Done: true})
		for _, s1 := range all {
			for _, s2 := range all {
				if s1 == s2 || s1.RetSeq >= s2.InvSeq {
					continue
				}
				clean := true
				for _, rs := range resets {
					if rs.b >= s1.InvSeq && rs.a <= s2.RetSeq {
						clean = false
					}
				}
				if clean && !isPrefix(s1.Snap, s2.Snap) {
					add("C05", "snapshot-not-prefix", "%s: snapshot of op %d %s is not a prefix of the later snapshot of op %d %s", M,
						s1.Op.ID, descTuples(obs, s1.Snap), s2.Op.ID, descTuples(obs, s2.Snap))
				}
			}
		}
		// linearizability against the list model
		if len(obs.Plan.Tasks) > 1 {
			var ops []porcupine.Operation
			for _, r := range calls {
				ret := r.RetSeq
				if r.CbCount > 0 {
					ret = r.CbSeq
				}
				ops = append(ops, porcupine.Operation{ClientId: r.Task, Input: linIn{kind: 0, tuple: r.Tuple}, Call: int64(r.InvSeq), Output: nil, Return: int64(ret)})
			}
			for _, s := range all {
				ops = append(ops, porcupine.Operation{ClientId: s.Task, Input: linIn{kind: 1}, Call: int64(s.InvSeq), Output: encodeList(s.Snap), Return: int64(s.RetSeq)})
			}
			for _, rs := range resets {
				ops = append(ops, porcupine.Operation{ClientId: 0, Input: linIn{kind: 2}, Call: int64(rs.a), Return: int64(rs.b)})
			}
			if len(ops) > MaxLinOps {
				lin.Skipped++
			} else {
				switch porcupine.CheckOperationsTimeout(listModel, ops, 10*time.Second) {
				case porcupine.Illegal:
					lin.Checked++
					add("C05", "not-linearizable", "%s: the history of %d appends, %d snapshots and %d resets has no linearization against one atomic list", M, len(calls), len(all), len(resets))
				case porcupine.Unknown:
					lin.Unknown++
				default:
					lin.Checked++
				}
			}
		}
	}
	return fs
}

type linIn struct {
	kind  int // 0 append, 1 snapshot, 2 reset
	tuple string
}

// listModel is the sequential reference: one append-only list with reset.
var listModel = porcupine.Model{
	Init: func() interface{} { return "" },
	Step: func(state, input, output interface{}) (bool, interface{}) {
		st := state.(string)
		in := input.(linIn)
		switch in.kind {
		case 0:
			return true, st + in.tuple + "\x1e"
		case 1:
			return st == output.(string), st
		default:
			return true, ""
		}
	},
	Equal: func(a, b interface{}) bool { return a.(string) == b.(string) },
}

// encodeList renders a list of tuples unambiguously (every element is
// terminated, so [""] differs from []).
func encodeList(ts []string) string {
	var b strings.Builder
	for _, t := range ts {
		b.WriteString(t)
		b.WriteByte(0x1e)
	}
	return b.String()
}

func isPrefix(a, b []string) bool {
	if len(a) > len(b) {
		return false
	}
	for i := range a {
		if a[i] != b[i] {
			return false
		}
	}
	return true
}
