package mockharness

import (
	"context"
	"fmt"
	"io"
	"reflect"
	"strconv"
	"strings"
	"unsafe"
)

// tagErr is the error the harness hands to mocks; identity is its address.
type tagErr struct{ tag int }

func (e *tagErr) Error() string { return "tagErr#" + strconv.Itoa(e.tag) }

type tagStringer struct{ tag int }

func (s *tagStringer) String() string { return "tagStringer#" + strconv.Itoa(s.tag) }

type ctxKey struct{}

var (
	errorType   = reflect.TypeOf((*error)(nil)).Elem()
	contextType = reflect.TypeOf((*context.Context)(nil)).Elem()
	readerType  = reflect.TypeOf((*io.Reader)(nil)).Elem()
)

// gen builds a value of type t that carries tag wherever the type can hold
// one. depth bounds recursion through composite types.
func gen(t reflect.Type, tag int, depth int) reflect.Value {
	v := reflect.New(t).Elem()
	if depth > 4 {
		return v
	}
	if depth == 0 && (tag/16+tag%16)%4 == 3 {
		// now and then the zero value of a nil-able type: a nil func, pointer,
		// map, channel or slice is a value like any other and must travel
		// through the mock unchanged
		switch t.Kind() {
		case reflect.Func, reflect.Ptr, reflect.Map, reflect.Chan, reflect.Slice:
			return v
		}
	}
	switch t.Kind() {
	case reflect.Bool:
		v.SetBool(tag%2 == 1)
	case reflect.Int8:
		v.SetInt(int64(tag%120 + 1))
	case reflect.Int16:
		v.SetInt(int64(tag%30000 + 1))
	case reflect.Int, reflect.Int32, reflect.Int64:
		v.SetInt(int64(tag))
	case reflect.Uint8:
		v.SetUint(uint64(tag%250 + 1))
	case reflect.Uint16:
		v.SetUint(uint64(tag%60000 + 1))
	case reflect.Uint, reflect.Uint32, reflect.Uint64, reflect.Uintptr:
		v.SetUint(uint64(tag))
	case reflect.Float32, reflect.Float64:
		v.SetFloat(float64(tag) + 0.5)
	case reflect.Complex64, reflect.Complex128:
		v.SetComplex(complex(float64(tag), 1))
	case reflect.String:
		v.SetString("s" + strconv.Itoa(tag))
	case reflect.Ptr:
		p := reflect.New(t.Elem())
		p.Elem().Set(gen(t.Elem(), tag, depth+1))
		v.Set(p)
	case reflect.Slice:
		n := 1 + tag%2
		s := reflect.MakeSlice(t, n, n+1)
		for i := 0; i < n; i++ {
			s.Index(i).Set(gen(t.Elem(), tag, depth+1))
		}
		v.Set(s)
	case reflect.Array:
		for i := 0; i < t.Len() && i < 8; i++ {
			v.Index(i).Set(gen(t.Elem(), tag, depth+1))
		}
	case reflect.Map:
		m := reflect.MakeMap(t)
		if t.Key().Comparable() && t.Key().Kind() != reflect.Interface {
			m.SetMapIndex(gen(t.Key(), tag, depth+1), gen(t.Elem(), tag, depth+1))
		}
		v.Set(m)
	case reflect.Chan:
		c := reflect.MakeChan(reflect.ChanOf(reflect.BothDir, t.Elem()), 1)
		v.Set(c.Convert(t))
	case reflect.Func:
		outs := make([]reflect.Type, t.NumOut())
		for i := range outs {
			outs[i] = t.Out(i)
		}
		v.Set(reflect.MakeFunc(t, func([]reflect.Value) []reflect.Value {
			res := make([]reflect.Value, len(outs))
			for i, o := range outs {
				res[i] = reflect.Zero(o)
			}
			return res
		}))
	case reflect.Interface:
		for _, c := range []any{&tagErr{tag}, context.WithValue(context.Background(), ctxKey{}, tag),
			strings.NewReader("r" + strconv.Itoa(tag)), &tagStringer{tag}} {
			cv := reflect.ValueOf(c)
			if cv.Type().Implements(t) && (t.NumMethod() > 0) {
				v.Set(cv)
				return v
			}
		}
		if t.NumMethod() == 0 {
			p := new(int)
			*p = tag
			v.Set(reflect.ValueOf(p))
		}
		// other interface types: nil (no known implementation)
	case reflect.Struct:
		for i := 0; i < t.NumField(); i++ {
			if t.Field(i).IsExported() {
				v.Field(i).Set(gen(t.Field(i).Type, tag, depth+1))
			}
		}
	case reflect.UnsafePointer:
		p := new(int)
		v.SetPointer(unsafe.Pointer(p))
	}
	return v
}

// ident renders the identity of a value: scalars by value, reference types by
// address (slices also by len and cap), composites recursively. Two values are
// "the same" iff their idents are equal. Idents contain addresses and are used
// for comparison only; they never enter a trace, a hash or an ordering.
func ident(v reflect.Value) string {
	var b strings.Builder
	identTo(&b, v, 0)
	return b.String()
}

func identTo(b *strings.Builder, v reflect.Value, depth int) {
	if !v.IsValid() {
		b.WriteString("<invalid>")
		return
	}
	if depth > 6 {
		b.WriteString("<deep>")
		return
	}
	switch v.Kind() {
	case reflect.Bool:
		fmt.Fprintf(b, "b%v", v.Bool())
	case reflect.Int, reflect.Int8, reflect.Int16, reflect.Int32, reflect.Int64:
		fmt.Fprintf(b, "i%d", v.Int())
	case reflect.Uint, reflect.Uint8, reflect.Uint16, reflect.Uint32, reflect.Uint64, reflect.Uintptr:
		fmt.Fprintf(b, "u%d", v.Uint())
	case reflect.Float32, reflect.Float64:
		fmt.Fprintf(b, "f%v", v.Float())
	case reflect.Complex64, reflect.Complex128:
		fmt.Fprintf(b, "c%v", v.Complex())
	case reflect.String:
		fmt.Fprintf(b, "s%q", v.String())
	case reflect.Ptr, reflect.Map, reflect.Chan, reflect.UnsafePointer:
		fmt.Fprintf(b, "p%x", v.Pointer())
	case reflect.Func:
		if v.IsNil() {
			b.WriteString("fn-nil")
			return
		}
		fmt.Fprintf(b, "fn%x", funcClosure(v))
	case reflect.Slice:
		fmt.Fprintf(b, "sl%x:%d:%d", v.Pointer(), v.Len(), v.Cap())
	case reflect.Array:
		b.WriteByte('[')
		for i := 0; i < v.Len(); i++ {
			identTo(b, v.Index(i), depth+1)
			b.WriteByte(',')
		}
		b.WriteByte(']')
	case reflect.Struct:
		b.WriteByte('{')
		for i := 0; i < v.NumField(); i++ {
			identTo(b, v.Field(i), depth+1)
			b.WriteByte(',')
		}
		b.WriteByte('}')
	case reflect.Interface:
		if v.IsNil() {
			b.WriteString("if-nil")
			return
		}
		b.WriteString("if(")
		b.WriteString(v.Elem().Type().String())
		b.WriteByte(':')
		identTo(b, v.Elem(), depth+1)
		b.WriteByte(')')
	default:
		b.WriteString("?")
	}
}

// funcClosure returns the closure pointer of a func value (distinct for every
// reflect.MakeFunc result, unlike the code pointer).
func funcClosure(v reflect.Value) uintptr {
	if v.CanAddr() {
		return *(*uintptr)(v.Addr().UnsafePointer())
	}
	if v.CanInterface() {
		nv := reflect.New(v.Type()).Elem()
		nv.Set(v)
		return *(*uintptr)(nv.Addr().UnsafePointer())
	}
	return v.Pointer()
}

// describe renders a value for humans without addresses.
func describe(v reflect.Value) string {
	if !v.IsValid() {
		return "<invalid>"
	}
	switch v.Kind() {
	case reflect.Bool, reflect.Int, reflect.Int8, reflect.Int16, reflect.Int32, reflect.Int64,
		reflect.Uint, reflect.Uint8, reflect.Uint16, reflect.Uint32, reflect.Uint64, reflect.Uintptr,
		reflect.Float32, reflect.Float64, reflect.Complex64, reflect.Complex128, reflect.String:
		return fmt.Sprintf("%v", v)
	case reflect.Slice:
		return fmt.Sprintf("%s(len %d)", v.Type(), v.Len())
	case reflect.Ptr, reflect.Map, reflect.Chan, reflect.Func, reflect.Interface:
		if v.IsNil() {
			return v.Type().String() + "(nil)"
		}
	}
	return v.Type().String() + "(…)"
}

// isZero reports whether v is the zero value of its type, by identity rules.
func isZero(v reflect.Value) bool { return v.IsZero() }
