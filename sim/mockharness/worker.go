package mockharness

import (
	"encoding/binary"
	"encoding/json"
	"flag"
	"fmt"
	"os"
	"sort"
	"strings"
	"time"

	"verif/sim/tape"
)

// Replay is the self-describing replay artefact of one violating run.
type Replay struct {
	Property   string    `json:"property"`
	Class      string    `json:"class"`
	Engine     string    `json:"engine"`
	VerifSeed  uint64    `json:"verif_seed"`
	Run        uint64    `json:"run"`
	Tier       string    `json:"tier"`
	Corpus     any       `json:"corpus,omitempty"` // filled in by the orchestrator: how to rebuild the cell
	CellID     string    `json:"cell_id"`
	CellDesc   string    `json:"cell"`
	Plan       *Plan     `json:"plan"`
	Sched      []int     `json:"sched"`
	Findings   []Finding `json:"findings"`
	Trace      []string  `json:"trace"`
	TraceHash  string    `json:"trace_hash"`
	ShrinkRuns int       `json:"shrink_executions"`
	OrigOps    int       `json:"original_ops"`
	OrigSched  int       `json:"original_sched_len"`
	RepoTree   string    `json:"repo_tree_hash,omitempty"`
}

// WorkerResult is what one worker process reports.
type WorkerResult struct {
	Prop        string         `json:"prop"`
	Shard       int            `json:"shard"`
	Runs        int            `json:"runs"`
	Incomplete  int            `json:"incomplete_runs"`
	SimEvents   uint64         `json:"sim_events"`
	Switches    int            `json:"context_switches"`
	Nontrivial  int            `json:"nontrivial_runs"`
	Probes      map[string]int `json:"probes"`
	Faults      map[string]int `json:"faults_fired"`
	Other       map[string]int `json:"other_signals"`
	CellsRun    map[string]int `json:"cells_run"`
	Lin         LinStats       `json:"linearizability"`
	Violations  []string       `json:"violation_files"`
	Unsupported []string       `json:"unsupported"`
	Samples     []string       `json:"samples"`
	WallS       float64        `json:"wall_s"`
	NonReplay   []string       `json:"non_replaying"`
}

func traceHash(obs *Obs, fs []Finding, prop string) string {
	h := obs.Sim.Signature()
	for _, f := range fs {
		if f.Prop == prop {
			h ^= fnv(f.Key())
			h *= 1099511628211
		}
	}
	return fmt.Sprintf("%016x", h)
}

// runReplay executes a replay and returns findings, trace and hash.
func runReplay(c *Cell, p *Plan, sched []int, prop string) ([]Finding, []string, string) {
	obs := Execute(c, p, tape.Replay(sched), true)
	var lin LinStats
	fs := Check(obs, &lin)
	var tr []string
	for _, e := range obs.Sim.Events {
		tr = append(tr, e.String())
	}
	return fs, tr, traceHash(obs, fs, prop)
}

func findCell(id string) *Cell {
	for _, c := range Cells() {
		if c.ID == id {
			return c
		}
	}
	return nil
}

var watchdog *time.Timer

// watchdogAfter is deliberately long: a run takes milliseconds, but the whole
// sandbox may be paused for minutes (snapshots), and a watchdog that fires
// then is a false "not a verdict".
const watchdogAfter = 20 * time.Minute

func armWatchdog(what string) {
	if watchdog != nil {
		watchdog.Stop()
	}
	watchdog = time.AfterFunc(watchdogAfter, func() {
		fmt.Fprintf(os.Stderr, "WATCHDOG: %s did not finish within 20 minutes: a task blocks in something the simulator does not own\n", what)
		os.Exit(2)
	})
}

// Main is the entry point of the generated harness binary.
func Main() {
	if len(os.Args) < 2 {
		fmt.Fprintln(os.Stderr, "usage: harness worker|replay|list ...")
		os.Exit(2)
	}
	switch os.Args[1] {
	case "list":
		for _, c := range Cells() {
			fmt.Println(c.Describe())
		}
	case "worker":
		workerMain(os.Args[2:])
	case "replay":
		replayMain(os.Args[2:])
	default:
		fmt.Fprintln(os.Stderr, "unknown subcommand")
		os.Exit(2)
	}
}

func replayMain(args []string) {
	fl := flag.NewFlagSet("replay", flag.ExitOnError)
	file := fl.String("file", "", "replay file")
	fl.Parse(args)
	data, err := os.ReadFile(*file)
	if err != nil {
		fmt.Fprintln(os.Stderr, err)
		os.Exit(2)
	}
	var rp Replay
	if err := json.Unmarshal(data, &rp); err != nil {
		fmt.Fprintln(os.Stderr, err)
		os.Exit(2)
	}
	c := findCell(rp.CellID)
	if c == nil {
		fmt.Fprintf(os.Stderr, "cell %s not in this harness\n", rp.CellID)
		os.Exit(2)
	}
	armWatchdog("replay")
	fs, tr, h := runReplay(c, rp.Plan, rp.Sched, rp.Property)
	out := struct {
		Findings  []Finding `json:"findings"`
		Trace     []string  `json:"trace"`
		TraceHash string    `json:"trace_hash"`
		Same      bool      `json:"reproduced"`
	}{fs, tr, h, false}
	for _, f := range fs {
		if f.Prop == rp.Property && f.Class == rp.Class {
			out.Same = true
		}
	}
	if rp.TraceHash != "" && rp.TraceHash != h {
		out.Same = false
	}
	json.NewEncoder(os.Stdout).Encode(out)
}

func workerMain(args []string) {
	fl := flag.NewFlagSet("worker", flag.ExitOnError)
	prop := fl.String("prop", "C05", "property")
	seed := fl.Uint64("seed", 1, "VERIF_SEED")
	shard := fl.Int("shard", 0, "shard index")
	nshards := fl.Int("nshards", 1, "number of shards")
	runs := fl.Int("runs", 1000, "total runs over all shards")
	maxSec := fl.Float64("max-seconds", 0, "wall-clock cap (0 = none)")
	out := fl.String("out", "", "result file prefix")
	tier := fl.String("tier", "quick", "tier")
	hashOnly := fl.Bool("hash-only", false, "selftest: print one line per run with its signature, check nothing else")
	fl.Parse(args)
	pf, ok := Profiles[*prop]
	if !ok {
		fmt.Fprintln(os.Stderr, "no profile for", *prop)
		os.Exit(2)
	}
	start := time.Now()
	res := &WorkerResult{Prop: *prop, Shard: *shard, Probes: map[string]int{}, Faults: map[string]int{}, Other: map[string]int{}, CellsRun: map[string]int{}}
	all := Cells()
	var elig, empty []*Cell
	for _, c := range all {
		if len(c.methods) == 0 {
			empty = append(empty, c)
		} else {
			elig = append(elig, c)
		}
	}
	if len(elig) == 0 {
		elig, empty = empty, nil
	}
	if len(elig) == 0 {
		fmt.Fprintln(os.Stderr, "no cell with methods")
		os.Exit(2)
	}
	sigs := map[uint64]struct{}{}
	base := tape.MixS(*seed, *prop)
	foundKeys := map[string]bool{}
	for r := *shard; r < *runs; r += *nshards {
		if *maxSec > 0 && time.Since(start).Seconds() > *maxSec {
			break
		}
		runSeed := tape.Mix(base, uint64(r))
		tp := tape.New(runSeed)
		c := elig[tp.Int(len(elig))]
		if len(empty) > 0 && tp.Chance(20, 1000) {
			c = empty[tp.Int(len(empty))] // method-less interfaces: little to run, but their method set is checked
		}
		plan := GenPlan(tp, c, pf)
		planLen := len(tp.Out)
		armWatchdog(fmt.Sprintf("run %d (%s)", r, plan))
		obs := Execute(c, plan, tp, false)
		sched := append([]int(nil), tp.Out[planLen:]...)
		if obs.CapExtended {
			sched = append([]int(nil), obs.TapeOut...)
			res.Probes["event-cap-extended"]++
		}
		if *hashOnly {
			fmt.Printf("%d %016x %d\n", r, obs.Sim.Signature(), obs.Sim.Seq())
			res.Runs++
			continue
		}
		fs := Check(obs, &res.Lin)
		res.Runs++
		res.CellsRun[c.ID]++
		res.SimEvents += obs.Sim.Seq()
		res.Switches += obs.Sim.Switches
		if !obs.Complete {
			res.Incomplete++
		}
		nontrivial := (len(plan.Tasks) >= 2 && obs.Sim.Switches >= 1) || (len(plan.Tasks) == 1 && len(obs.Recs) >= 3)
		if nontrivial {
			res.Nontrivial++
			sigs[obs.Sim.Signature()^fnv(c.ID)^fnv(plan.String())*31] = struct{}{}
		}
		countProbes(obs, res)
		if len(res.Samples) < 3 && nontrivial {
			res.Samples = append(res.Samples, fmt.Sprintf("run %d: %s => %d events, %d switches, %d findings", r, plan, obs.Sim.Seq(), obs.Sim.Switches, len(fs)))
		}
		for _, f := range fs {
			switch {
			case f.Prop == "HARNESS":
				if len(res.Unsupported) < 5 {
					res.Unsupported = append(res.Unsupported, fmt.Sprintf("run %d cell %s: %s: %s", r, c.ID, f.Class, f.Detail))
				}
			case f.Prop != *prop:
				res.Other[f.Key()]++
			case !foundKeys[f.Key()]:
				foundKeys[f.Key()] = true
				key := f.Key()
				mp, ms, execs := Minimise(c, plan, sched, key, 3000)
				fs2, tr, h := runReplay(c, mp, ms, *prop)
				repro := false
				for _, g := range fs2 {
					if g.Key() == key {
						repro = true
					}
				}
				if !repro {
					res.NonReplay = append(res.NonReplay, fmt.Sprintf("run %d cell %s %s: %s", r, c.ID, key, f.Detail))
					continue
				}
				rp := Replay{Property: *prop, Class: f.Class, Engine: "mocksim", VerifSeed: *seed, Run: uint64(r), Tier: *tier,
					CellID: c.ID, CellDesc: c.Describe(), Plan: mp, Sched: ms, Findings: fs2, Trace: tr, TraceHash: h,
					ShrinkRuns: execs, OrigOps: plan.CountOps(), OrigSched: len(sched)}
				name := fmt.Sprintf("%s.viol.%d.%d.json", *out, *shard, len(res.Violations))
				data, _ := json.MarshalIndent(rp, "", " ")
				if err := os.WriteFile(name, data, 0o644); err != nil {
					fmt.Fprintln(os.Stderr, err)
					os.Exit(2)
				}
				res.Violations = append(res.Violations, name)
			}
		}
		if len(res.Violations) >= 2 {
			break
		}
	}
	if watchdog != nil {
		watchdog.Stop()
	}
	res.WallS = time.Since(start).Seconds()
	if *hashOnly {
		return
	}
	// signatures, for the orchestrator to merge
	keys := make([]uint64, 0, len(sigs))
	for k := range sigs {
		keys = append(keys, k)
	}
	sort.Slice(keys, func(i, j int) bool { return keys[i] < keys[j] })
	buf := make([]byte, 8*len(keys))
	for i, k := range keys {
		binary.LittleEndian.PutUint64(buf[8*i:], k)
	}
	if err := os.WriteFile(fmt.Sprintf("%s.sigs.%d", *out, *shard), buf, 0o644); err != nil {
		fmt.Fprintln(os.Stderr, err)
		os.Exit(2)
	}
	data, _ := json.MarshalIndent(res, "", " ")
	if err := os.WriteFile(fmt.Sprintf("%s.res.%d.json", *out, *shard), data, 0o644); err != nil {
		fmt.Fprintln(os.Stderr, err)
		os.Exit(2)
	}
}

func countProbes(obs *Obs, res *WorkerResult) {
	for k, v := range obs.Sim.Probes {
		res.Probes[k] += v
	}
	if obs.Sim.Contended > 0 {
		res.Probes["lock-contended"] += obs.Sim.Contended
	}
	inflight := func(r *OpRec, at uint64) bool { return r.InvSeq < at && (r.RetSeq == 0 || r.RetSeq > at) }
	for _, r := range obs.Recs {
		switch r.Op.Kind {
		case OpCall:
			if r.NilFunc {
				res.Faults["nil-function-call"]++
				continue
			}
			if r.CbCount == 0 {
				continue
			}
			switch r.Op.Beh {
			case BehPanic:
				res.Faults["callback-panic"]++
			case BehGoexit:
				res.Faults["callback-goexit"]++
			case BehStall:
				res.Faults["callback-stall"]++
				if r.Starved {
					res.Probes["stall-until-others-finished"]++
				} else {
					res.Probes["stall-budget-elapsed"]++
				}
			case BehReenter:
				res.Faults["callback-reenter"]++
				for _, n := range r.Op.Nested {
					if n.Kind == OpCall && n.Method == r.Op.Method {
						res.Probes["reenter-same-method"]++
					}
				}
			}
			if r.Depth >= 2 {
				res.Probes["nesting-depth-3"]++
			}
			if r.Op.Beh == BehPanic || r.Op.Beh == BehGoexit {
				for _, o := range obs.Recs {
					if o.Task != r.Task && o.Op.Kind == OpCall && inflight(o, r.CbSeq) {
						res.Probes["fault-while-other-task-mid-call"]++
						break
					}
				}
			}
		case OpCalls:
			for _, o := range obs.Recs {
				if o.Op.Method == r.Op.Method && o.Op.Kind == OpCall && o.InvSeq > r.RetSeq && r.Done {
					res.Probes["snapshot-held-across-append"]++
					break
				}
			}
			for _, o := range obs.Recs {
				if (o.Op.Kind == OpResetAll || (o.Op.Kind == OpReset && o.Op.Method == r.Op.Method)) && o.InvSeq > r.RetSeq && r.Done && len(r.Snap) > 0 {
					res.Probes["nonempty-snapshot-held-across-reset"]++
					break
				}
			}
		case OpResetAll:
			for _, o := range obs.Recs {
				if o.Task != r.Task && o.Op.Kind == OpCall && o.InvSeq > r.InvSeq && o.InvSeq < r.RetSeq {
					res.Probes["resetcalls-interleaved-with-call"]++
					break
				}
			}
		}
	}
}

var _ = strings.Join
