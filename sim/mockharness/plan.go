package mockharness

import (
	"fmt"
	"strings"

	"verif/sim/simrt"
	"verif/sim/tape"
)

// Op kinds.
const (
	OpCall     = "call"
	OpCalls    = "calls"
	OpReset    = "reset"
	OpResetAll = "resetall"
	OpReread   = "reread" // look again at the task's latest snapshot of a method
)

// Callback behaviours.
const (
	BehReturn  = "return"
	BehPanic   = "panic"
	BehGoexit  = "goexit"
	BehStall   = "stall"
	BehReenter = "reenter"
)

// Op is one operation of a plan. For a call, Beh says what the configured
// function does when the mock delegates to it.
type Op struct {
	ID     int    `json:"id"`
	Kind   string `json:"kind"`
	Method string `json:"method,omitempty"`
	Beh    string `json:"beh,omitempty"`
	Budget int    `json:"budget,omitempty"` // stall: foreign events to wait for; <0 = until nobody else can run
	VarLen int    `json:"varlen,omitempty"` // variadic tail: 0 nil slice, 1 empty non-nil, n+1 = n elements
	Nested []*Op  `json:"nested,omitempty"`
}

// Plan is a complete, schedule-independent description of a run's workload.
type Plan struct {
	Cell     string         `json:"cell"`
	Profile  string         `json:"profile"`
	Strategy simrt.Strategy `json:"strategy"`
	NilFuncs []string       `json:"nil_funcs,omitempty"`
	Tasks    [][]*Op        `json:"tasks"`
}

// Profile tunes plan generation for one property.
type Profile struct {
	Name                 string
	MinTasks, MaxTasks   int
	MaxOps               int
	ReadPM, ResetPM      int // per-mille of top-level ops
	PanicPM, GoexitPM    int // per-mille of callbacks
	StallPM, ReenterPM   int
	NilPM                int // per-mille of methods left unconfigured
	NilDefaultMode       bool
	MaxDepth             int
	FaultFreeHalf        bool // every second run has only returning callbacks
	ForceSingleIfNoFault bool
}

// Profiles by property id.
var Profiles = map[string]Profile{
	"C03": {Name: "C03", MinTasks: 1, MaxTasks: 3, MaxOps: 6, ReadPM: 100, ResetPM: 50, PanicPM: 150, GoexitPM: 50, StallPM: 50, ReenterPM: 150, NilPM: 80, MaxDepth: 3},
	"C04": {Name: "C04", MinTasks: 1, MaxTasks: 1, MaxOps: 12, ReadPM: 350, ResetPM: 120, PanicPM: 150, GoexitPM: 40, ReenterPM: 250, NilPM: 120, MaxDepth: 3},
	"C05": {Name: "C05", MinTasks: 2, MaxTasks: 4, MaxOps: 6, ReadPM: 300, ResetPM: 100, PanicPM: 80, GoexitPM: 30, StallPM: 60, ReenterPM: 120, NilPM: 80, MaxDepth: 2, FaultFreeHalf: true},
	"C06": {Name: "C06", MinTasks: 1, MaxTasks: 4, MaxOps: 5, ReadPM: 250, ResetPM: 150, PanicPM: 100, GoexitPM: 50, StallPM: 250, ReenterPM: 350, NilPM: 50, MaxDepth: 3},
	"C07": {Name: "C07", MinTasks: 1, MaxTasks: 2, MaxOps: 8, ReadPM: 300, ResetPM: 80, PanicPM: 80, GoexitPM: 20, ReenterPM: 150, NilPM: 500, NilDefaultMode: true, MaxDepth: 2},
	"C08": {Name: "C08", MinTasks: 1, MaxTasks: 1, MaxOps: 14, ReadPM: 350, ResetPM: 300, PanicPM: 80, GoexitPM: 20, ReenterPM: 200, NilPM: 80, MaxDepth: 2},
}

type planGen struct {
	tp     *tape.Tape
	c      *Cell
	pf     Profile
	nextID int
	faults bool
}

// GenPlan draws a plan for cell c from the tape.
func GenPlan(tp *tape.Tape, c *Cell, pf Profile) *Plan {
	g := &planGen{tp: tp, c: c, pf: pf, faults: true}
	p := &Plan{Cell: c.ID, Profile: pf.Name}
	switch tp.Int(3) {
	case 0:
		p.Strategy = simrt.Strategy{Kind: 0}
	case 1:
		p.Strategy = simrt.Strategy{Kind: 1, PreemptPM: []int{50, 200, 500}[tp.Int(3)]}
	default:
		p.Strategy = simrt.Strategy{Kind: 2, Depth: 1 + tp.Int(3), Horizon: 40 + 40*tp.Int(4)}
	}
	if pf.FaultFreeHalf && tp.Bool() {
		g.faults = false
	}
	// nil function fields: in default mode only where the profile asks for it
	if c.Flags.Stub || pf.NilDefaultMode {
		for _, m := range c.methods {
			if tp.Chance(pf.NilPM, 1000) {
				p.NilFuncs = append(p.NilFuncs, m.Name)
			}
		}
	}
	if len(c.methods) == 0 {
		// an empty interface: nothing to call; exercise ResetCalls when it exists
		var ops []*Op
		if c.Flags.WithResets {
			ops = append(ops, &Op{ID: g.bump(), Kind: OpResetAll})
		}
		p.Tasks = [][]*Op{ops}
		return p
	}
	nt := pf.MinTasks + tp.Int(pf.MaxTasks-pf.MinTasks+1)
	for i := 0; i < nt; i++ {
		n := 1 + tp.Int(pf.MaxOps)
		var ops []*Op
		for j := 0; j < n; j++ {
			ops = append(ops, g.op(0))
		}
		p.Tasks = append(p.Tasks, ops)
	}
	return p
}

func (g *planGen) op(depth int) *Op {
	g.nextID++
	o := &Op{ID: g.nextID}
	c := g.c
	r := g.tp.Int(1000)
	switch {
	case r >= 1000-g.pf.ResetPM && c.Flags.WithResets:
		if g.tp.Int(3) == 0 {
			o.Kind = OpResetAll
		} else {
			o.Kind = OpReset
			o.Method = c.methods[g.tp.Int(len(c.methods))].Name
		}
		return o
	case r >= 1000-g.pf.ResetPM-g.pf.ReadPM:
		o.Kind = OpCalls
		o.Method = c.methods[g.tp.Int(len(c.methods))].Name
		if g.tp.Int(4) == 3 {
			o.Kind = OpReread
		}
		return o
	}
	o.Kind = OpCall
	m := c.methods[g.tp.Int(len(c.methods))]
	o.Method = m.Name
	if m.Variadic {
		o.VarLen = g.tp.Int(4)
	}
	o.Beh = BehReturn
	if !g.faults {
		return o
	}
	b := g.tp.Int(1000)
	pf := g.pf
	switch {
	case b >= 1000-pf.PanicPM:
		o.Beh = BehPanic
	case b >= 1000-pf.PanicPM-pf.GoexitPM:
		o.Beh = BehGoexit
	case b >= 1000-pf.PanicPM-pf.GoexitPM-pf.StallPM:
		o.Beh = BehStall
		o.Budget = []int{-1, 3, 10, 30}[g.tp.Int(4)]
	case b >= 1000-pf.PanicPM-pf.GoexitPM-pf.StallPM-pf.ReenterPM && depth < pf.MaxDepth:
		o.Beh = BehReenter
		n := 1 + g.tp.Int(3)
		for i := 0; i < n; i++ {
			o.Nested = append(o.Nested, g.op(depth+1))
		}
		// a re-entering callback may itself end in a fault
		switch g.tp.Int(8) {
		case 7:
			o.Nested = append(o.Nested, &Op{ID: g.bump(), Kind: "end-panic"})
		case 6:
			o.Nested = append(o.Nested, &Op{ID: g.bump(), Kind: "end-stall", Budget: -1})
		}
	}
	return o
}

func (g *planGen) bump() int { g.nextID++; return g.nextID }

// String renders a plan compactly for traces and evidence samples.
func (p *Plan) String() string {
	var b strings.Builder
	fmt.Fprintf(&b, "cell=%s sched=%s", p.Cell, p.Strategy)
	if len(p.NilFuncs) > 0 {
		fmt.Fprintf(&b, " nil=%s", strings.Join(p.NilFuncs, ","))
	}
	for i, t := range p.Tasks {
		fmt.Fprintf(&b, " | t%d:", i)
		for _, o := range t {
			b.WriteByte(' ')
			b.WriteString(o.String())
		}
	}
	return b.String()
}

func (o *Op) String() string {
	switch o.Kind {
	case OpCall:
		s := o.Method + "()"
		if o.Beh != BehReturn && o.Beh != "" {
			s += "!" + o.Beh
		}
		if len(o.Nested) > 0 {
			var n []string
			for _, x := range o.Nested {
				n = append(n, x.String())
			}
			s += "{" + strings.Join(n, " ") + "}"
		}
		return s
	case OpCalls:
		return o.Method + "Calls()"
	case OpReread:
		return "reread(" + o.Method + "Calls)"
	case OpReset:
		return "Reset" + o.Method + "Calls()"
	case OpResetAll:
		return "ResetCalls()"
	}
	return o.Kind
}

// CountOps returns the number of ops including nested ones.
func (p *Plan) CountOps() int {
	n := 0
	var walk func(os []*Op)
	walk = func(os []*Op) {
		for _, o := range os {
			n++
			walk(o.Nested)
		}
	}
	for _, t := range p.Tasks {
		walk(t)
	}
	return n
}
