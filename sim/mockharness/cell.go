// Package mockharness drives compiled, instrumented moq mocks under the simrt
// scheduler: it generates operation plans from a tape, executes them, and
// checks the observations against a list model (C03-C08).
package mockharness

import (
	"fmt"
	"reflect"
	"sort"
	"strings"
)

// Flags are the moq options a cell was generated with.
type Flags struct {
	Stub       bool   `json:"stub"`
	SkipEnsure bool   `json:"skip_ensure"`
	WithResets bool   `json:"with_resets"`
	Pkg        string `json:"pkg"` // "" = in place
	Fmt        string `json:"fmt"`
	Alias      bool   `json:"alias"`
}

func (f Flags) String() string {
	var p []string
	if f.Stub {
		p = append(p, "-stub")
	}
	if f.SkipEnsure {
		p = append(p, "-skip-ensure")
	}
	if f.WithResets {
		p = append(p, "-with-resets")
	}
	if f.Pkg != "" {
		p = append(p, "-pkg "+f.Pkg)
	}
	if f.Fmt != "" {
		p = append(p, "-fmt "+f.Fmt)
	}
	if f.Alias {
		p = append(p, "alias")
	}
	if len(p) == 0 {
		return "(default)"
	}
	return strings.Join(p, " ")
}

// Cell is one compiled mock: an interface of the corpus generated under one
// flag set.
type Cell struct {
	ID        string
	Iface     string
	MockName  string
	IfaceType reflect.Type
	New       func() any
	Flags     Flags
	// Unexported maps the names of unexported methods and accessors to method
	// expressions ((*Mock).name), supplied by the registration file
	Unexported map[string]any

	methods    []*methodInfo
	staticFs   []Finding
	staticDone bool
}

type methodInfo struct {
	Name     string
	Type     reflect.Type
	In       []reflect.Type
	Out      []reflect.Type
	Variadic bool
}

var cells []*Cell

// Register is called from the generated registration file of every cell.
func Register(c Cell) {
	cc := c
	t := cc.IfaceType
	if t == nil || t.Kind() != reflect.Interface {
		panic(fmt.Sprintf("cell %s: IfaceType is not an interface", c.ID))
	}
	for i := 0; i < t.NumMethod(); i++ {
		m := t.Method(i)
		mi := &methodInfo{Name: m.Name, Type: m.Type, Variadic: m.Type.IsVariadic()}
		for j := 0; j < m.Type.NumIn(); j++ {
			mi.In = append(mi.In, m.Type.In(j))
		}
		for j := 0; j < m.Type.NumOut(); j++ {
			mi.Out = append(mi.Out, m.Type.Out(j))
		}
		cc.methods = append(cc.methods, mi)
	}
	cells = append(cells, &cc)
}

// Cells returns the registered cells sorted by id.
func Cells() []*Cell {
	sort.Slice(cells, func(i, j int) bool { return cells[i].ID < cells[j].ID })
	return cells
}

func (c *Cell) method(name string) *methodInfo {
	for _, m := range c.methods {
		if m.Name == name {
			return m
		}
	}
	return nil
}

// Describe renders the cell for evidence files.
func (c *Cell) Describe() string {
	var ms []string
	for _, m := range c.methods {
		ms = append(ms, m.Name+strings.TrimPrefix(m.Type.String(), "func"))
	}
	return fmt.Sprintf("%s %s{%s} [%s]", c.ID, c.IfaceType.String(), strings.Join(ms, "; "), c.Flags)
}

// staticMethodSet checks the exported method set of *Mock against the
// interface and the -with-resets flag (the static half of C08, and a sanity
// check for everything else).
func (c *Cell) staticMethodSet() []Finding {
	var fs []Finding
	mt := reflect.TypeOf(c.New())
	have := map[string]bool{}
	for i := 0; i < mt.NumMethod(); i++ {
		have[mt.Method(i).Name] = true
	}
	want := map[string]string{}
	for _, m := range c.methods {
		if !isExported(m.Name) {
			// reflection does not list them; their reset helper is exported all the same
			if c.Flags.WithResets {
				want["Reset"+m.Name+"Calls"] = "reset"
			}
			continue
		}
		want[m.Name] = "method"
		want[m.Name+"Calls"] = "accessor"
		if c.Flags.WithResets {
			want["Reset"+m.Name+"Calls"] = "reset"
		}
	}
	if c.Flags.WithResets {
		want["ResetCalls"] = "reset"
	}
	var names []string
	for n := range want {
		names = append(names, n)
	}
	sort.Strings(names)
	for _, n := range names {
		if !have[n] {
			cl := "method-missing"
			if want[n] == "reset" {
				cl = "reset-method-missing"
			}
			fs = append(fs, Finding{Prop: propOfStatic(want[n]), Class: cl, Detail: fmt.Sprintf("%s: *%s has no method %s", c.ID, c.MockName, n)})
		}
	}
	names = names[:0]
	for n := range have {
		names = append(names, n)
	}
	sort.Strings(names)
	for _, n := range names {
		if _, ok := want[n]; !ok {
			cl, prop := "unexpected-method", "C02"
			if strings.HasPrefix(n, "Reset") {
				cl, prop = "reset-method-without-flag", "C08"
			}
			fs = append(fs, Finding{Prop: prop, Class: cl, Detail: fmt.Sprintf("%s: *%s has unexpected exported method %s (with-resets=%v)", c.ID, c.MockName, n, c.Flags.WithResets)})
		}
	}
	return fs
}

// staticRecordTypes checks that every call record has one field per parameter
// with exactly the parameter's type (the static half of C04's "holding the
// argument values field-by-field": a value converted to another type - a named
// slice recorded as its underlying type, say - is not the argument any more).
// Records with more fields than parameters are matched by type (argFields) and
// cannot disagree; records with fewer show up when a call is compared.
func (c *Cell) staticRecordTypes() []Finding {
	var fs []Finding
	mt := reflect.TypeOf(c.New())
	for _, m := range c.methods {
		if !isExported(m.Name) {
			continue
		}
		acc, ok := mt.MethodByName(m.Name + "Calls")
		if !ok || acc.Type.NumOut() != 1 || acc.Type.Out(0).Kind() != reflect.Slice {
			continue
		}
		rec := acc.Type.Out(0).Elem()
		if rec.Kind() != reflect.Struct || rec.NumField() != len(m.In) {
			continue
		}
		for i, in := range m.In {
			if rec.Field(i).Type != in {
				fs = append(fs, Finding{Prop: "C04", Class: "record-field-type-differs", Detail: fmt.Sprintf("%s: record field %s of %sCalls() has type %s, parameter %d has type %s",
					c.ID, rec.Field(i).Name, m.Name, rec.Field(i).Type, i, in)})
			}
		}
	}
	return fs
}

func isExported(name string) bool { return name != "" && name[0] >= 'A' && name[0] <= 'Z' }

func propOfStatic(kind string) string {
	if kind == "reset" {
		return "C08"
	}
	return "C02" // not claimed: reported only as other_signal
}
