package mockharness

import (
	"verif/sim/simrt"
	"verif/sim/tape"
)

func cloneOps(os []*Op) []*Op {
	if os == nil {
		return nil
	}
	out := make([]*Op, len(os))
	for i, o := range os {
		c := *o
		c.Nested = cloneOps(o.Nested)
		out[i] = &c
	}
	return out
}

func clonePlan(p *Plan) *Plan {
	c := *p
	c.NilFuncs = append([]string(nil), p.NilFuncs...)
	c.Tasks = make([][]*Op, len(p.Tasks))
	for i, t := range p.Tasks {
		c.Tasks[i] = cloneOps(t)
	}
	return &c
}

// Reproduces executes plan under the recorded schedule and reports whether a
// finding with the given key occurs.
func Reproduces(c *Cell, p *Plan, sched []int, key string) bool {
	obs := Execute(c, p, tape.Replay(sched), false)
	var lin LinStats
	for _, f := range Check(obs, &lin) {
		if f.Key() == key {
			return true
		}
	}
	return false
}

// Minimise shrinks plan and schedule while a finding with the same property
// and class keeps occurring. It is deterministic: every candidate is a full
// re-execution under a replayed tape.
func Minimise(c *Cell, p *Plan, sched []int, key string, budget int) (*Plan, []int, int) {
	execs := 0
	try := func(q *Plan, s []int) bool {
		if execs >= budget {
			return false
		}
		execs++
		return Reproduces(c, q, s, key)
	}
	best, bs := clonePlan(p), append([]int(nil), sched...)
	best.Strategy = simrt.Strategy{}
	if !try(best, bs) {
		return p, sched, execs // not reproducible under replay: caller decides
	}
	for changed := true; changed && execs < budget; {
		changed = false
		// 1. non-preemptive schedule
		if len(bs) > 0 && try(best, nil) {
			bs = nil
			changed = true
		}
		// 2. drop tasks
		for i := len(best.Tasks) - 1; i >= 0 && len(best.Tasks) > 1; i-- {
			q := clonePlan(best)
			q.Tasks = append(q.Tasks[:i:i], q.Tasks[i+1:]...)
			if try(q, bs) {
				best = q
				changed = true
			}
		}
		// 3. drop ops (top level, then nested), simplify behaviours
		for ti := range best.Tasks {
			for oi := len(best.Tasks[ti]) - 1; oi >= 0; oi-- {
				if len(best.Tasks[ti]) == 1 && len(best.Tasks) > 1 {
					// keep one op per task here; dropping the task was tried above
				}
				q := clonePlan(best)
				q.Tasks[ti] = append(q.Tasks[ti][:oi:oi], q.Tasks[ti][oi+1:]...)
				if len(q.Tasks[ti]) == 0 && len(q.Tasks) == 1 {
					continue
				}
				if try(q, bs) {
					best = q
					changed = true
				}
			}
		}
		var paths [][]int
		var collect func(os []*Op, prefix []int)
		collect = func(os []*Op, prefix []int) {
			for i, o := range os {
				pp := append(append([]int(nil), prefix...), i)
				paths = append(paths, pp)
				collect(o.Nested, pp)
			}
		}
		for ti := range best.Tasks {
			paths = paths[:0]
			collect(best.Tasks[ti], nil)
			for k := len(paths) - 1; k >= 0; k-- {
				path := paths[k]
				// simplify behaviour
				q := clonePlan(best)
				o := opAt(q.Tasks[ti], path)
				if o == nil {
					continue
				}
				if o.Kind == OpCall && (o.Beh != BehReturn || len(o.Nested) > 0) {
					o.Beh = BehReturn
					o.Nested = nil
					if try(q, bs) {
						best = q
						changed = true
						continue
					}
				}
				if len(path) > 1 { // drop a nested op
					q = clonePlan(best)
					parent := opAt(q.Tasks[ti], path[:len(path)-1])
					if parent == nil || path[len(path)-1] >= len(parent.Nested) {
						continue
					}
					i := path[len(path)-1]
					parent.Nested = append(parent.Nested[:i:i], parent.Nested[i+1:]...)
					if try(q, bs) {
						best = q
						changed = true
					}
				}
			}
		}
		// 4. configure every function
		for i := len(best.NilFuncs) - 1; i >= 0; i-- {
			q := clonePlan(best)
			q.NilFuncs = append(q.NilFuncs[:i:i], q.NilFuncs[i+1:]...)
			if try(q, bs) {
				best = q
				changed = true
			}
		}
		// 5. schedule: cut the tail, then zero single choices
		for len(bs) > 0 {
			cut := len(bs) / 2
			if try(best, bs[:cut]) {
				bs = bs[:cut]
				changed = true
				continue
			}
			break
		}
		for n := len(bs); n > 0 && bs[n-1] == 0; n-- {
			bs = bs[:n-1]
		}
		for i := len(bs) - 1; i >= 0; i-- {
			if bs[i] == 0 {
				continue
			}
			s2 := append([]int(nil), bs...)
			s2[i] = 0
			if try(best, s2) {
				bs = s2
				changed = true
			}
		}
		for n := len(bs); n > 0 && bs[n-1] == 0; n-- {
			bs = bs[:n-1]
		}
	}
	return best, bs, execs
}

func opAt(os []*Op, path []int) *Op {
	var o *Op
	for _, i := range path {
		if i >= len(os) {
			return nil
		}
		o = os[i]
		os = o.Nested
	}
	return o
}
