package mockharness

import (
	"fmt"
	"reflect"
	"runtime"
	"strings"
	"unsafe"

	"verif/sim/simrt"
	"verif/sim/simrt/simsync"
	"verif/sim/tape"
)

// OpRec is what the harness observed about one executed op.
type OpRec struct {
	Op     *Op
	Task   int
	Depth  int
	InvSeq uint64
	RetSeq uint64
	// calls
	NilFunc     bool
	Args        []string // ident per parameter as passed by the caller
	ArgsDesc    []string
	Tuple       string // joined Args: what a record of this call must look like
	CbCount     int
	CbSeq       uint64
	CbTaskOK    bool
	CbGoidOK    bool
	CbArgs      []string
	CbHeld      []string
	CbSelfVis   int      // -1 not checked, 0 record not visible inside callback, 1 visible
	CbSelfLast  bool     // sequential runs: record was the last element
	Want        []string // results the callback produced
	Got         []string // results the caller saw
	GotZero     []bool
	Outcome     string // return, panic, goexit, aborted
	PanicSame   bool   // caller observed the callback's own panic value
	PanicText   string
	PostLen     int // length of MCalls() right after a nil-function panic in default mode (-1 otherwise)
	PostHas     bool
	SnapChanged string
	PostAll     map[string][]string // seq runs: every method's records right after a reset op
	// reads
	Snap    []string // one tuple per record
	snapVal reflect.Value
	Done    bool
	Starved bool
	Blocked []string
}

// Obs is everything observed in one run.
type Obs struct {
	Cell      *Cell
	Plan      *Plan
	Sim       *simrt.Sim
	Complete  bool
	Recs      []*OpRec
	Final     map[string][]string // method -> tuples after quiescence
	FreshLens map[string]int      // MCalls() length of the fresh mock, before any op
	ForeignCb []string            // callbacks invoked outside their own method's call
	WrongTask []string
	Notes     []string
	TapeOut   []int
	// CapExtended: the run reached the ordinary event cap and was repeated with
	// a cap twenty times larger (same choices)
	CapExtended bool
}

type taskState struct {
	idx   int
	stack []*OpRec
}

// panicSentinel is what harness callbacks panic with. It is an error (the
// most common kind of panic value, and the one generated code is most tempted
// to treat specially).
type panicSentinel struct{ op int }

func (p *panicSentinel) Error() string { return fmt.Sprintf("sentinel(op %d)", p.op) }

type runner struct {
	c        *Cell
	p        *Plan
	sim      *simrt.Sim
	mock     reflect.Value
	obs      *Obs
	nilF     map[string]bool
	seq1     bool // single task: stronger in-callback check
	hasReset map[string]bool
}

// Execute runs plan on a fresh mock of cell c under a simulation that draws
// its scheduling choices from tp.
//
// A run that reaches the event cap is repeated with the same choices and a
// twenty times larger cap before it counts as "no progress": only a run that
// exhausts that too is a livelock; one that finishes was merely long.
func Execute(c *Cell, p *Plan, tp *tape.Tape, keepLog bool) *Obs {
	start := len(tp.Out) // the tape may already hold the draws that made the plan
	obs := execute(c, p, tp, keepLog, 0)
	for _, v := range obs.Sim.Viol {
		if v.Class == "no-progress" {
			cap := obs.Sim.MaxEvents * 20
			obs = execute(c, p, tape.Replay(append([]int(nil), obs.TapeOut[start:]...)), keepLog, cap)
			obs.CapExtended = true
			break
		}
	}
	return obs
}

func execute(c *Cell, p *Plan, tp *tape.Tape, keepLog bool, cap uint64) *Obs {
	sim := simrt.New(tp, p.Strategy)
	sim.KeepLog = keepLog
	if cap > 0 {
		// the extension of a run cut off at the ordinary cap: same choices as far
		// as they go, fair scheduling after them, so that a correct spin-wait
		// that the original strategy starved gets to finish
		sim.MaxEvents = cap
		sim.FairTail = true
	}
	r := &runner{c: c, p: p, sim: sim, nilF: map[string]bool{}, hasReset: map[string]bool{}}
	r.obs = &Obs{Cell: c, Plan: p, Sim: sim, Final: map[string][]string{}, FreshLens: map[string]int{}}
	for _, n := range p.NilFuncs {
		r.nilF[n] = true
	}
	r.seq1 = len(p.Tasks) == 1
	var walk func(os []*Op)
	walk = func(os []*Op) {
		for _, o := range os {
			if o.Kind == OpReset {
				r.hasReset[o.Method] = true
			}
			if o.Kind == OpResetAll {
				r.hasReset["*"] = true
			}
			walk(o.Nested)
		}
	}
	for _, t := range p.Tasks {
		walk(t)
	}

	mock := c.New()
	r.mock = reflect.ValueOf(mock)
	r.labelLocks()
	for _, m := range c.methods {
		if r.nilF[m.Name] {
			continue
		}
		f := r.mock.Elem().FieldByName(m.Name + "Func")
		if !f.IsValid() || f.Kind() != reflect.Func {
			r.obs.Notes = append(r.obs.Notes, "no function field "+m.Name+"Func")
			continue
		}
		if !f.CanSet() {
			// the field of an unexported method: set it through its address
			f = reflect.NewAt(f.Type(), unsafe.Pointer(f.UnsafeAddr())).Elem()
		}
		f.Set(reflect.MakeFunc(f.Type(), r.callback(m)))
	}

	for i, ops := range p.Tasks {
		i, ops := i, ops
		ts := &taskState{idx: i}
		t := sim.Go(fmt.Sprintf("task%d", i), func() {
			if r.seq1 {
				// the zero-value mock needs no initialisation and reports no calls
				for _, m := range c.methods {
					probe := &OpRec{}
					r.readCalls(probe, m.Name)
					r.obs.FreshLens[m.Name] = len(probe.Snap)
				}
			}
			for _, o := range ops {
				r.runOp(ts, o, 0)
			}
		})
		t.Data = ts
	}
	fin := &taskState{idx: len(p.Tasks)}
	ft := sim.Go("finalizer", func() {
		// a fresh mock reports no calls: read before anything else happened
		// only in single-task runs would be racy-free by construction; here
		// the finalizer reads after quiescence instead.
		sim.Join()
		for _, m := range c.methods {
			rec := &OpRec{Op: &Op{Kind: OpCalls, Method: m.Name}, Task: fin.idx}
			r.readCalls(rec, m.Name)
			r.obs.Final[m.Name] = rec.Snap
		}
		// snapshots returned earlier must not have changed
		for _, rec := range r.obs.Recs {
			if rec.Op.Kind == OpCalls && rec.Done && rec.snapVal.IsValid() {
				now := tuplesOf(rec.snapVal, r.arity(rec.Op.Method))
				if !equalStrings(now, rec.Snap) {
					rec.SnapChanged = fmt.Sprintf("had %d records %s, now %d records %s",
						len(rec.Snap), r.descTuples(rec.Snap), len(now), r.descTuples(now))
				}
			}
		}
	})
	ft.Data = fin
	r.obs.Complete = sim.Run()
	r.obs.TapeOut = tp.Out
	return r.obs
}

// methodValue returns a callable for a method of the mock: by reflection for
// exported names, through the registered method expression otherwise.
func (r *runner) methodValue(name string) reflect.Value {
	if isExported(name) {
		return r.mock.MethodByName(name)
	}
	fn, ok := r.c.Unexported[name]
	if !ok {
		return reflect.Value{}
	}
	fv := reflect.ValueOf(fn)
	ft := fv.Type()
	ins := make([]reflect.Type, 0, ft.NumIn()-1)
	for i := 1; i < ft.NumIn(); i++ {
		ins = append(ins, ft.In(i))
	}
	outs := make([]reflect.Type, 0, ft.NumOut())
	for i := 0; i < ft.NumOut(); i++ {
		outs = append(outs, ft.Out(i))
	}
	bound := reflect.FuncOf(ins, outs, ft.IsVariadic())
	return reflect.MakeFunc(bound, func(args []reflect.Value) []reflect.Value {
		all := append([]reflect.Value{r.mock}, args...)
		if ft.IsVariadic() {
			return fv.CallSlice(all)
		}
		return fv.Call(all)
	})
}

func (r *runner) labelLocks() {
	ev := r.mock.Elem()
	if ev.Kind() != reflect.Struct {
		return
	}
	mt := reflect.TypeOf(simsync.Mutex{})
	rt := reflect.TypeOf(simsync.RWMutex{})
	var walk func(v reflect.Value, prefix string)
	walk = func(v reflect.Value, prefix string) {
		for i := 0; i < v.NumField(); i++ {
			f := v.Field(i)
			name := prefix + v.Type().Field(i).Name
			switch {
			case f.Type() == mt || f.Type() == rt:
				r.sim.Label(unsafe.Pointer(f.Addr().UnsafePointer()), name)
			case f.Kind() == reflect.Struct:
				walk(f, name+".")
			}
		}
	}
	walk(ev, "")
}

func (r *runner) newRec(ts *taskState, o *Op, depth int) *OpRec {
	rec := &OpRec{Op: o, Task: ts.idx, Depth: depth, CbSelfVis: -1, PostLen: -1}
	r.obs.Recs = append(r.obs.Recs, rec)
	return rec
}

func (r *runner) runOp(ts *taskState, o *Op, depth int) {
	switch o.Kind {
	case OpCall:
		r.runCall(ts, o, depth)
	case OpCalls:
		rec := r.newRec(ts, o, depth)
		rec.InvSeq = r.sim.Point("invoke " + o.String())
		r.readCalls(rec, o.Method)
		rec.RetSeq = r.sim.Point("return " + o.String())
		rec.Done = true
	case OpReread:
		// user code looks again at a snapshot it took earlier
		rec := r.newRec(ts, o, depth)
		rec.InvSeq = r.sim.Point("re-read " + o.Method + "Calls() snapshot")
		for i := len(r.obs.Recs) - 1; i >= 0; i-- {
			p := r.obs.Recs[i]
			if p.Task == ts.idx && p.Op.Kind == OpCalls && p.Op.Method == o.Method && p.Done && p.snapVal.IsValid() {
				r.readElems(p.snapVal, o.Method)
				now := tuplesOf(p.snapVal, r.arity(o.Method))
				if !equalStrings(now, p.Snap) && p.SnapChanged == "" {
					p.SnapChanged = fmt.Sprintf("had %d records %s, now %d records %s", len(p.Snap), r.descTuples(p.Snap), len(now), r.descTuples(now))
				}
				break
			}
		}
		rec.RetSeq = r.sim.Seq()
		rec.Done = true
	case OpReset, OpResetAll:
		rec := r.newRec(ts, o, depth)
		name := "ResetCalls"
		if o.Kind == OpReset {
			name = "Reset" + o.Method + "Calls"
		}
		rec.InvSeq = r.sim.Point("invoke " + name)
		mv := r.mock.MethodByName(name)
		if mv.IsValid() {
			mv.Call(nil)
		}
		// a missing reset method is reported by the static method-set check (C08)
		rec.RetSeq = r.sim.Point("return " + name)
		if r.seq1 {
			rec.PostAll = map[string][]string{}
			for _, m := range r.c.methods {
				probe := &OpRec{}
				r.readCalls(probe, m.Name)
				rec.PostAll[m.Name] = probe.Snap
			}
		}
		rec.Done = true
	case "end-panic":
		panic(&panicSentinel{op: ts.stack[len(ts.stack)-1].Op.ID})
	case "end-stall":
		st, bl := r.sim.Gate("stall", o.Budget)
		top := ts.stack[len(ts.stack)-1]
		top.Starved, top.Blocked = st, append(top.Blocked, bl...)
	}
}

func (r *runner) readCalls(rec *OpRec, method string) {
	mv := r.methodValue(method + "Calls")
	if !mv.IsValid() {
		r.obs.Notes = append(r.obs.Notes, "no accessor "+method+"Calls")
		return
	}
	out := mv.Call(nil)
	if len(out) != 1 || out[0].Kind() != reflect.Slice {
		r.obs.Notes = append(r.obs.Notes, "accessor "+method+"Calls does not return one slice")
		return
	}
	rec.snapVal = out[0]
	r.readElems(out[0], method)
	rec.Snap = tuplesOf(out[0], r.arity(method))
}

// readElems reads every element of a snapshot the way user code would: each
// is a probed read of the element's address.
func (r *runner) readElems(s reflect.Value, method string) {
	r.sim.Keep(s.Interface())
	for i := 0; i < s.Len(); i++ {
		e := s.Index(i)
		if e.CanAddr() && e.Type().Size() > 0 {
			r.sim.ReadAddr(e.Addr().UnsafePointer(), "snapshot of "+method+"Calls()[i]")
		}
	}
}

// arity returns the parameter types of a method of the mocked interface.
func (r *runner) arity(method string) []reflect.Type {
	if m := r.c.method(method); m != nil {
		return m.In
	}
	return nil
}

// argFields picks, among the fields of a call record, those that hold the
// arguments: all of them when there is one per parameter; otherwise the one
// order-preserving selection whose types are the parameter types (a record may
// carry other things before, between or after them); the first fields if that
// selection is not unique.
func argFields(rec reflect.Type, in []reflect.Type) []int {
	n := len(in)
	first := make([]int, 0, n)
	for j := 0; j < rec.NumField() && j < n; j++ {
		first = append(first, j)
	}
	if rec.NumField() <= n {
		return first
	}
	var found [][]int
	var walk func(f, p int, cur []int)
	walk = func(f, p int, cur []int) {
		if len(found) > 1 {
			return
		}
		if p == n {
			found = append(found, append([]int(nil), cur...))
			return
		}
		for j := f; j < rec.NumField(); j++ {
			if rec.Field(j).Type == in[p] {
				walk(j+1, p+1, append(cur, j))
			}
		}
	}
	walk(0, 0, nil)
	if len(found) == 1 {
		return found[0]
	}
	return first
}

// tuplesOf renders every record of an MCalls() result as the joined idents of
// its argument fields in declaration order.
func tuplesOf(s reflect.Value, in []reflect.Type) []string {
	out := make([]string, s.Len())
	var pick []int
	if et := s.Type().Elem(); et.Kind() == reflect.Struct {
		pick = argFields(et, in)
	}
	for i := range out {
		e := s.Index(i)
		var parts []string
		if e.Kind() == reflect.Struct {
			for _, j := range pick {
				parts = append(parts, ident(e.Field(j)))
			}
		} else {
			parts = append(parts, ident(e))
		}
		out[i] = strings.Join(parts, "\x1f")
	}
	return out
}

func (r *runner) runCall(ts *taskState, o *Op, depth int) {
	m := r.c.method(o.Method)
	rec := r.newRec(ts, o, depth)
	rec.NilFunc = r.nilF[o.Method]
	// arguments: parameter i of op k carries tag k*16+i
	args := make([]reflect.Value, len(m.In))
	for i, t := range m.In {
		tag := o.ID*16 + i
		if m.Variadic && i == len(m.In)-1 {
			switch o.VarLen {
			case 0:
				args[i] = reflect.Zero(t)
			case 1:
				args[i] = reflect.MakeSlice(t, 0, 2)
			default:
				s := reflect.MakeSlice(t, o.VarLen-1, o.VarLen+1)
				for j := 0; j < s.Len(); j++ {
					s.Index(j).Set(gen(t.Elem(), tag+j, 1))
				}
				args[i] = s
			}
		} else {
			args[i] = gen(t, tag, 0)
		}
		rec.Args = append(rec.Args, ident(args[i]))
		rec.ArgsDesc = append(rec.ArgsDesc, describe(args[i]))
	}
	rec.Tuple = strings.Join(rec.Args, "\x1f")
	mv := r.methodValue(o.Method)
	ts.stack = append(ts.stack, rec)
	rec.InvSeq = r.sim.Point("invoke " + o.Method)
	finished := false
	defer func() {
		ts.stack = ts.stack[:len(ts.stack)-1]
		if finished {
			return
		}
		if r.sim.Aborted() {
			rec.Outcome = "aborted"
			return
		}
		pv := recover()
		if pv == nil {
			// neither returned nor panicked: runtime.Goexit is unwinding this task
			rec.Outcome = "goexit"
			rec.RetSeq = r.sim.Seq()
			rec.Done = true
			return
		}
		rec.Outcome = "panic"
		if ps, ok := pv.(*panicSentinel); ok {
			rec.PanicSame = ps.op == o.ID
			rec.PanicText = fmt.Sprintf("sentinel(op %d)", ps.op)
		} else {
			rec.PanicText = fmt.Sprint(pv)
		}
		if rec.NilFunc && !r.c.Flags.Stub {
			// learn whether the failed call was recorded: the model takes no position
			probe := &OpRec{}
			r.readCalls(probe, o.Method)
			rec.PostLen = len(probe.Snap)
			rec.PostHas = false
			for _, tu := range probe.Snap {
				if tu == rec.Tuple {
					rec.PostHas = true
				}
			}
		}
		rec.RetSeq = r.sim.Point("panicked " + o.Method)
		rec.Done = true
		// a panic out of a nested call is recovered here, as user code inside
		// a callback may do; the enclosing callback continues
	}()
	var out []reflect.Value
	if m.Variadic {
		out = mv.CallSlice(args)
	} else {
		out = mv.Call(args)
	}
	finished = true
	rec.Outcome = "return"
	if rec.NilFunc && r.c.Flags.Stub {
		probe := &OpRec{}
		r.readCalls(probe, o.Method)
		rec.PostLen = len(probe.Snap)
		for _, tu := range probe.Snap {
			if tu == rec.Tuple {
				rec.PostHas = true
			}
		}
	}
	for _, v := range out {
		rec.Got = append(rec.Got, ident(v))
		rec.GotZero = append(rec.GotZero, isZero(v))
	}
	rec.RetSeq = r.sim.Point("return " + o.Method)
	rec.Done = true
}

// callback builds the function installed in MFunc.
func (r *runner) callback(m *methodInfo) func([]reflect.Value) []reflect.Value {
	return func(in []reflect.Value) []reflect.Value {
		zero := func() []reflect.Value {
			res := make([]reflect.Value, len(m.Out))
			for i, t := range m.Out {
				res[i] = reflect.Zero(t)
			}
			return res
		}
		t := r.sim.Cur()
		ts, _ := t.Data.(*taskState)
		if ts == nil || len(ts.stack) == 0 {
			r.obs.WrongTask = append(r.obs.WrongTask, fmt.Sprintf("%sFunc invoked on task %d (%s) which has no call in flight", m.Name, t.ID, t.Name))
			return zero()
		}
		rec := ts.stack[len(ts.stack)-1]
		if rec.Op.Method != m.Name {
			r.obs.ForeignCb = append(r.obs.ForeignCb, fmt.Sprintf("%sFunc invoked during a call of %s (op %d)", m.Name, rec.Op.Method, rec.Op.ID))
			return zero()
		}
		rec.CbCount++
		if rec.CbCount > 1 {
			return zero()
		}
		rec.CbTaskOK = true
		rec.CbGoidOK = simrt.Goid() == t.RealGoid()
		for _, v := range in {
			rec.CbArgs = append(rec.CbArgs, ident(v))
		}
		rec.CbHeld = t.Held()
		rec.CbSeq = r.sim.Point("callback-enter " + m.Name)
		// the record of this very call must already be visible
		if r.seq1 || (!r.hasReset[m.Name] && !r.hasReset["*"]) {
			probe := &OpRec{}
			r.readCalls(probe, m.Name)
			rec.CbSelfVis = 0
			for i, tu := range probe.Snap {
				if tu == rec.Tuple {
					rec.CbSelfVis = 1
					rec.CbSelfLast = i == len(probe.Snap)-1
				}
			}
		}
		o := rec.Op
		res := make([]reflect.Value, len(m.Out))
		for i, ot := range m.Out {
			res[i] = gen(ot, o.ID*16+8+i, 0)
			rec.Want = append(rec.Want, ident(res[i]))
		}
		switch o.Beh {
		case BehPanic:
			panic(&panicSentinel{op: o.ID})
		case BehGoexit:
			runtime.Goexit()
		case BehStall:
			rec.Starved, rec.Blocked = r.sim.Gate("stall in "+m.Name+"Func", o.Budget)
		case BehReenter:
			for _, n := range o.Nested {
				r.runOp(ts, n, rec.Depth+1)
			}
		}
		r.sim.Point("callback-exit " + m.Name)
		return res
	}
}

func (r *runner) descTuples(ts []string) string { return descTuples(r.obs, ts) }

// descTuples names records by the op whose arguments they equal (tuples
// contain addresses and are never printed themselves).
func descTuples(obs *Obs, ts []string) string {
	var parts []string
	for _, t := range ts {
		name := "?"
		for _, rec := range obs.Recs {
			if rec.Op.Kind == OpCall && rec.Tuple == t {
				name = fmt.Sprintf("op%d", rec.Op.ID)
				break
			}
		}
		parts = append(parts, name)
	}
	return "[" + strings.Join(parts, " ") + "]"
}

func fnv(s string) uint64 {
	h := uint64(14695981039346656037)
	for i := 0; i < len(s); i++ {
		h ^= uint64(s[i])
		h *= 1099511628211
	}
	return h
}

func equalStrings(a, b []string) bool {
	if len(a) != len(b) {
		return false
	}
	for i := range a {
		if a[i] != b[i] {
			return false
		}
	}
	return true
}
