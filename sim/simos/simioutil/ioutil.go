// Package simioutil stands in for io/ioutil inside a scratch copy of moq.
package simioutil

import (
	"io"
	"io/fs"
	"os"

	"verif/sim/simos"
)

func WriteFile(name string, data []byte, perm fs.FileMode) error {
	return simos.WriteFile(name, data, perm)
}
func ReadFile(name string) ([]byte, error)              { return os.ReadFile(name) }
func TempFile(dir, pattern string) (*simos.File, error) { return simos.CreateTemp(dir, pattern) }
func TempDir(dir, pattern string) (string, error)       { return simos.MkdirTemp(dir, pattern) }
func ReadAll(r io.Reader) ([]byte, error)               { return io.ReadAll(r) }
func NopCloser(r io.Reader) io.ReadCloser               { return io.NopCloser(r) }
func ReadDir(dirname string) ([]fs.FileInfo, error) {
	es, err := os.ReadDir(dirname)
	if err != nil {
		return nil, err
	}
	var out []fs.FileInfo
	for _, e := range es {
		i, err := e.Info()
		if err != nil {
			return nil, err
		}
		out = append(out, i)
	}
	return out, nil
}

var Discard = io.Discard
