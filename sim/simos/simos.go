// Package simos stands in for package os inside a scratch copy of moq
// (engine C, clisim). Every call passes through to the real file system of
// the scratch directory, is appended to an op log, and may be failed, cut
// short or turned into a process crash by a fault plan the driver wrote from
// its tape. moq is single-threaded between these calls, so "the n-th matching
// primitive" is a deterministic fault address.
//
// Primitives: open (with the O_ flags; O_TRUNC takes effect only if the open
// is not failed), write, close, sync, remove, mkdir, rename, chmod, truncate,
// symlink, link. WriteFile is decomposed into open+write+close exactly as
// os.WriteFile is, so a fault can land in each phase.
package simos

import (
	"encoding/json"
	"errors"
	"io"
	"io/fs"
	"os"
	"path/filepath"
	"strings"
	"syscall"
	"time"
)

// Re-exported types, constants and errors.
type (
	FileMode  = os.FileMode
	FileInfo  = os.FileInfo
	PathError = os.PathError
	LinkError = os.LinkError
	DirEntry  = os.DirEntry
	Signal    = os.Signal
	Process   = os.Process
)

const (
	O_RDONLY = os.O_RDONLY
	O_WRONLY = os.O_WRONLY
	O_RDWR   = os.O_RDWR
	O_APPEND = os.O_APPEND
	O_CREATE = os.O_CREATE
	O_EXCL   = os.O_EXCL
	O_SYNC   = os.O_SYNC
	O_TRUNC  = os.O_TRUNC

	ModeDir        = os.ModeDir
	ModeAppend     = os.ModeAppend
	ModeExclusive  = os.ModeExclusive
	ModeTemporary  = os.ModeTemporary
	ModeSymlink    = os.ModeSymlink
	ModeDevice     = os.ModeDevice
	ModeNamedPipe  = os.ModeNamedPipe
	ModeSocket     = os.ModeSocket
	ModeSetuid     = os.ModeSetuid
	ModeSetgid     = os.ModeSetgid
	ModeCharDevice = os.ModeCharDevice
	ModeSticky     = os.ModeSticky
	ModeIrregular  = os.ModeIrregular
	ModeType       = os.ModeType
	ModePerm       = os.ModePerm

	PathSeparator     = os.PathSeparator
	PathListSeparator = os.PathListSeparator
	DevNull           = os.DevNull
)

var (
	ErrInvalid          = os.ErrInvalid
	ErrPermission       = os.ErrPermission
	ErrExist            = os.ErrExist
	ErrNotExist         = os.ErrNotExist
	ErrClosed           = os.ErrClosed
	ErrNoDeadline       = os.ErrNoDeadline
	ErrDeadlineExceeded = os.ErrDeadlineExceeded
	ErrProcessDone      = os.ErrProcessDone

	Interrupt = os.Interrupt
	Kill      = os.Kill

	Args = os.Args

	Stdin  = &File{f: os.Stdin, path: "<stdin>", std: true}
	Stdout = &File{f: os.Stdout, path: "<stdout>", std: true}
	Stderr = &File{f: os.Stderr, path: "<stderr>", std: true}
)

// Rule is one entry of the fault plan.
type Rule struct {
	Prim   string `json:"prim"`              // open, write, close, remove, mkdir, rename, chmod, sync, truncate
	Nth    int    `json:"nth"`               // n-th matching call (0-based)
	Path   string `json:"path,omitempty"`    // suffix the path must have ("" = any, "<stdout>" for stdout)
	Action string `json:"action"`            // error | short | crash
	Errno  string `json:"errno,omitempty"`   // ENOSPC EIO EACCES EROFS EDQUOT EISDIR ENOTDIR EMFILE
	Frac   int    `json:"frac_pm,omitempty"` // short/crash on write: per-mille of the buffer that lands first
	seen   int
	Fired  int `json:"-"`
}

// LogEntry is one line of the op log.
type LogEntry struct {
	Seq   int    `json:"seq"`
	Prim  string `json:"prim"`
	Path  string `json:"path"`
	Path2 string `json:"path2,omitempty"`
	Flags int    `json:"flags,omitempty"`
	N     int    `json:"n,omitempty"`    // bytes requested
	Done  int    `json:"done,omitempty"` // bytes written
	Err   string `json:"err,omitempty"`
	Fault string `json:"fault,omitempty"`
}

var (
	rules  []*Rule
	logF   *os.File
	logSeq int
)

func init() {
	if p := os.Getenv("SIMOS_PLAN"); p != "" {
		data, err := os.ReadFile(p)
		if err == nil {
			json.Unmarshal(data, &rules)
		}
	}
	if p := os.Getenv("SIMOS_LOG"); p != "" {
		logF, _ = os.OpenFile(p, os.O_CREATE|os.O_WRONLY|os.O_APPEND, 0o644)
	}
}

func abs(p string) string {
	if strings.HasPrefix(p, "<") {
		return p
	}
	a, err := filepath.Abs(p)
	if err != nil {
		return p
	}
	return a
}

func logOp(e LogEntry) {
	if logF != nil {
		e.Seq = logSeq
		logSeq++
		data, _ := json.Marshal(e)
		logF.Write(append(data, '\n'))
	}
	if pendingInterject != "" {
		interject()
	}
}

var errnos = map[string]syscall.Errno{
	"ENOSPC": syscall.ENOSPC, "EIO": syscall.EIO, "EACCES": syscall.EACCES, "EROFS": syscall.EROFS,
	"EDQUOT": syscall.EDQUOT, "EISDIR": syscall.EISDIR, "ENOTDIR": syscall.ENOTDIR, "EMFILE": syscall.EMFILE,
	"EPERM": syscall.EPERM, "EINTR": syscall.EINTR, "EPIPE": syscall.EPIPE, "EXDEV": syscall.EXDEV, "EBUSY": syscall.EBUSY,
}

// match returns the rule that fires for this primitive call, if any.
func match(prim, path string) *Rule {
	for i, r := range rules {
		if i > 0 && rules[0].Fired == 0 {
			// later rules are about what the program does after the first
			// failure: they lie dormant (and count nothing) until it has happened
			break
		}
		if r.Prim != prim {
			continue
		}
		if r.Path != "" && !strings.HasSuffix(path, r.Path) {
			continue
		}
		n := r.seen
		r.seen++
		if n == r.Nth {
			r.Fired++
			if r.Action == "interject" {
				// not a failure: right after this primitive another actor
				// (a second generator run, an editor) puts a file next to it
				pendingInterject = path
				return nil
			}
			return r
		}
	}
	return nil
}

var pendingInterject string

// interject plays the other actor: it creates a file inside path if that is a
// directory, next to it otherwise.
func interject() {
	p := pendingInterject
	pendingInterject = ""
	dir := p
	if fi, err := os.Stat(p); err != nil || !fi.IsDir() {
		dir = filepath.Dir(p)
	}
	name := filepath.Join(dir, "zz_other_actor.txt")
	err := os.WriteFile(name, []byte("written by another process while moq was running\n"), 0o644)
	e := LogEntry{Prim: "interject", Path: name, Err: errStr(err), Seq: logSeq}
	logSeq++
	if logF != nil {
		data, _ := json.Marshal(e)
		logF.Write(append(data, '\n'))
	}
}

func (r *Rule) err(op, path string) error {
	en, ok := errnos[r.Errno]
	if !ok {
		en = syscall.EIO
	}
	return &os.PathError{Op: op, Path: path, Err: en}
}

func crash() {
	if logF != nil {
		logF.Sync()
	}
	os.Exit(137)
}

func errStr(err error) string {
	if err == nil {
		return ""
	}
	return err.Error()
}

// simple applies a fault-able primitive that takes one path.
func simple(prim, op, path string, real func() error) error {
	p := abs(path)
	if r := match(prim, p); r != nil {
		if r.Action == "crash" {
			logOp(LogEntry{Prim: prim, Path: p, Fault: "crash"})
			crash()
		}
		err := r.err(op, path)
		logOp(LogEntry{Prim: prim, Path: p, Err: err.Error(), Fault: "error:" + r.Errno})
		return err
	}
	err := real()
	logOp(LogEntry{Prim: prim, Path: p, Err: errStr(err)})
	return err
}

// ---- File ----

// File stands in for os.File.
type File struct {
	f    *os.File
	path string
	std  bool
}

func openFile(name string, flag int, perm FileMode) (*File, error) {
	p := abs(name)
	if r := match("open", p); r != nil {
		if r.Action == "crash" {
			logOp(LogEntry{Prim: "open", Path: p, Flags: flag, Fault: "crash"})
			crash()
		}
		err := r.err("open", name)
		logOp(LogEntry{Prim: "open", Path: p, Flags: flag, Err: err.Error(), Fault: "error:" + r.Errno})
		return nil, err
	}
	f, err := os.OpenFile(name, flag, perm)
	logOp(LogEntry{Prim: "open", Path: p, Flags: flag, Err: errStr(err)})
	if err != nil {
		return nil, err
	}
	return &File{f: f, path: p}, nil
}

func OpenFile(name string, flag int, perm FileMode) (*File, error) { return openFile(name, flag, perm) }
func Open(name string) (*File, error)                              { return openFile(name, O_RDONLY, 0) }
func Create(name string) (*File, error) {
	return openFile(name, O_RDWR|O_CREATE|O_TRUNC, 0o666)
}

func CreateTemp(dir, pattern string) (*File, error) {
	if dir == "" {
		dir = os.TempDir()
	}
	probe := abs(filepath.Join(dir, pattern))
	if r := match("open", probe); r != nil {
		if r.Action == "crash" {
			logOp(LogEntry{Prim: "open", Path: probe, Fault: "crash"})
			crash()
		}
		err := r.err("open", probe)
		logOp(LogEntry{Prim: "open", Path: probe, Err: err.Error(), Fault: "error:" + r.Errno})
		return nil, err
	}
	f, err := os.CreateTemp(dir, pattern)
	if err != nil {
		logOp(LogEntry{Prim: "open", Path: probe, Flags: O_RDWR | O_CREATE | O_EXCL, Err: err.Error()})
		return nil, err
	}
	p := abs(f.Name())
	logOp(LogEntry{Prim: "open", Path: p, Flags: O_RDWR | O_CREATE | O_EXCL})
	return &File{f: f, path: p}, nil
}

func (f *File) Name() string { return f.f.Name() }
func (f *File) Fd() uintptr  { return f.f.Fd() }

func (f *File) Write(b []byte) (int, error) {
	p := f.path
	if f == Stderr {
		// the diagnostic channel itself is never failed: a moq that cannot
		// report has nothing left to be checked against
		return f.f.Write(b)
	}
	if r := match("write", p); r != nil {
		n := 0
		if r.Action == "short" || r.Action == "crash" {
			n = len(b) * r.Frac / 1000
			if n > len(b) {
				n = len(b)
			}
		}
		done := 0
		if n > 0 {
			done, _ = f.f.Write(b[:n])
		}
		if r.Action == "crash" {
			logOp(LogEntry{Prim: "write", Path: p, N: len(b), Done: done, Fault: "crash"})
			crash()
		}
		err := r.err("write", f.f.Name())
		logOp(LogEntry{Prim: "write", Path: p, N: len(b), Done: done, Err: err.Error(), Fault: r.Action + ":" + r.Errno})
		return done, err
	}
	n, err := f.f.Write(b)
	logOp(LogEntry{Prim: "write", Path: p, N: len(b), Done: n, Err: errStr(err)})
	return n, err
}

func (f *File) WriteString(s string) (int, error) { return f.Write([]byte(s)) }

func (f *File) WriteAt(b []byte, off int64) (int, error) {
	if r := match("write", f.path); r != nil {
		if r.Action == "crash" {
			crash()
		}
		err := r.err("write", f.f.Name())
		logOp(LogEntry{Prim: "write", Path: f.path, N: len(b), Err: err.Error(), Fault: r.Action + ":" + r.Errno})
		return 0, err
	}
	n, err := f.f.WriteAt(b, off)
	logOp(LogEntry{Prim: "write", Path: f.path, N: len(b), Done: n, Err: errStr(err)})
	return n, err
}

// ReadFrom makes io.Copy(file, r) go through Write.
func (f *File) ReadFrom(r io.Reader) (int64, error) {
	buf := make([]byte, 32*1024)
	var total int64
	for {
		n, rerr := r.Read(buf)
		if n > 0 {
			w, werr := f.Write(buf[:n])
			total += int64(w)
			if werr != nil {
				return total, werr
			}
		}
		if rerr == io.EOF {
			return total, nil
		}
		if rerr != nil {
			return total, rerr
		}
	}
}

func (f *File) Close() error {
	if f.std {
		return f.f.Close()
	}
	return simple("close", "close", f.path, f.f.Close)
}

func (f *File) Sync() error {
	if f.std {
		return f.f.Sync()
	}
	return simple("sync", "sync", f.path, f.f.Sync)
}

func (f *File) Truncate(size int64) error {
	return simple("truncate", "truncate", f.path, func() error { return f.f.Truncate(size) })
}

func (f *File) Chmod(mode FileMode) error {
	return simple("chmod", "chmod", f.path, func() error { return f.f.Chmod(mode) })
}

func (f *File) Read(b []byte) (int, error)                { return f.f.Read(b) }
func (f *File) ReadAt(b []byte, off int64) (int, error)   { return f.f.ReadAt(b, off) }
func (f *File) Seek(off int64, whence int) (int64, error) { return f.f.Seek(off, whence) }
func (f *File) Stat() (FileInfo, error)                   { return f.f.Stat() }
func (f *File) Readdir(n int) ([]FileInfo, error)         { return f.f.Readdir(n) }
func (f *File) Readdirnames(n int) ([]string, error)      { return f.f.Readdirnames(n) }
func (f *File) ReadDir(n int) ([]DirEntry, error)         { return f.f.ReadDir(n) }
func (f *File) SetDeadline(t time.Time) error             { return f.f.SetDeadline(t) }
func (f *File) SetWriteDeadline(t time.Time) error        { return f.f.SetWriteDeadline(t) }
func (f *File) SetReadDeadline(t time.Time) error         { return f.f.SetReadDeadline(t) }
func (f *File) Chown(uid, gid int) error                  { return f.f.Chown(uid, gid) }
func (f *File) Chdir() error                              { return f.f.Chdir() }

// ---- package-level functions ----

func Exit(code int) {
	if logF != nil {
		logF.Sync()
	}
	os.Exit(code)
}

// WriteFile is os.WriteFile over the simulated primitives.
func WriteFile(name string, data []byte, perm FileMode) error {
	f, err := openFile(name, O_WRONLY|O_CREATE|O_TRUNC, perm)
	if err != nil {
		return err
	}
	_, err = f.Write(data)
	if err1 := f.Close(); err1 != nil && err == nil {
		err = err1
	}
	return err
}

func ReadFile(name string) ([]byte, error) { return os.ReadFile(name) }

func Remove(name string) error {
	return simple("remove", "remove", name, func() error { return os.Remove(name) })
}

func RemoveAll(path string) error {
	return simple("remove", "unlinkat", path, func() error { return os.RemoveAll(path) })
}

func Mkdir(name string, perm FileMode) error {
	return simple("mkdir", "mkdir", name, func() error { return os.Mkdir(name, perm) })
}

// MkdirAll logs one mkdir primitive per directory it actually has to create.
func MkdirAll(path string, perm FileMode) error {
	var missing []string
	p := abs(path)
	for {
		if _, err := os.Stat(p); err == nil {
			break
		}
		missing = append([]string{p}, missing...)
		parent := filepath.Dir(p)
		if parent == p {
			break
		}
		p = parent
	}
	if len(missing) == 0 {
		// still one primitive, so that a fault can hit "directory creation"
		return simple("mkdir", "mkdir", path, func() error { return os.MkdirAll(path, perm) })
	}
	for _, m := range missing {
		m := m
		if err := simple("mkdir", "mkdir", m, func() error {
			err := os.Mkdir(m, perm)
			if err != nil && errors.Is(err, fs.ErrExist) {
				return nil
			}
			return err
		}); err != nil {
			return err
		}
	}
	return nil
}

func MkdirTemp(dir, pattern string) (string, error) {
	var out string
	err := simple("mkdir", "mkdir", filepath.Join(dir, pattern), func() error {
		var err error
		out, err = os.MkdirTemp(dir, pattern)
		return err
	})
	return out, err
}

func Rename(oldpath, newpath string) error {
	o, n := abs(oldpath), abs(newpath)
	if r := match("rename", n); r != nil {
		if r.Action == "crash" {
			logOp(LogEntry{Prim: "rename", Path: o, Path2: n, Fault: "crash"})
			crash()
		}
		en, ok := errnos[r.Errno]
		if !ok {
			en = syscall.EIO
		}
		err := &os.LinkError{Op: "rename", Old: oldpath, New: newpath, Err: en}
		logOp(LogEntry{Prim: "rename", Path: o, Path2: n, Err: err.Error(), Fault: "error:" + r.Errno})
		return err
	}
	err := os.Rename(oldpath, newpath)
	logOp(LogEntry{Prim: "rename", Path: o, Path2: n, Err: errStr(err)})
	return err
}

func Chmod(name string, mode FileMode) error {
	return simple("chmod", "chmod", name, func() error { return os.Chmod(name, mode) })
}

func Truncate(name string, size int64) error {
	return simple("truncate", "truncate", name, func() error { return os.Truncate(name, size) })
}

func Symlink(oldname, newname string) error {
	return simple("symlink", "symlink", newname, func() error { return os.Symlink(oldname, newname) })
}

func Link(oldname, newname string) error {
	return simple("link", "link", newname, func() error { return os.Link(oldname, newname) })
}

func Chtimes(name string, a, m time.Time) error {
	return simple("chmod", "chtimes", name, func() error { return os.Chtimes(name, a, m) })
}

func Chown(name string, uid, gid int) error {
	return simple("chmod", "chown", name, func() error { return os.Chown(name, uid, gid) })
}

// Read-only and process functions pass straight through.
func Stat(name string) (FileInfo, error)            { return os.Stat(name) }
func Lstat(name string) (FileInfo, error)           { return os.Lstat(name) }
func ReadDir(name string) ([]DirEntry, error)       { return os.ReadDir(name) }
func Readlink(name string) (string, error)          { return os.Readlink(name) }
func Getwd() (string, error)                        { return os.Getwd() }
func Chdir(dir string) error                        { return os.Chdir(dir) }
func Getenv(key string) string                      { return os.Getenv(key) }
func LookupEnv(key string) (string, bool)           { return os.LookupEnv(key) }
func Setenv(key, value string) error                { return os.Setenv(key, value) }
func Unsetenv(key string) error                     { return os.Unsetenv(key) }
func Environ() []string                             { return os.Environ() }
func ExpandEnv(s string) string                     { return os.ExpandEnv(s) }
func Expand(s string, m func(string) string) string { return os.Expand(s, m) }
func TempDir() string                               { return os.TempDir() }
func UserHomeDir() (string, error)                  { return os.UserHomeDir() }
func UserCacheDir() (string, error)                 { return os.UserCacheDir() }
func UserConfigDir() (string, error)                { return os.UserConfigDir() }
func Hostname() (string, error)                     { return os.Hostname() }
func Executable() (string, error)                   { return os.Executable() }
func Getpid() int                                   { return os.Getpid() }
func Getppid() int                                  { return os.Getppid() }
func Getuid() int                                   { return os.Getuid() }
func Geteuid() int                                  { return os.Geteuid() }
func Getgid() int                                   { return os.Getgid() }
func Getpagesize() int                              { return os.Getpagesize() }
func IsNotExist(err error) bool                     { return os.IsNotExist(err) }
func IsExist(err error) bool                        { return os.IsExist(err) }
func IsPermission(err error) bool                   { return os.IsPermission(err) }
func IsTimeout(err error) bool                      { return os.IsTimeout(err) }
func IsPathSeparator(c uint8) bool                  { return os.IsPathSeparator(c) }
func SameFile(a, b FileInfo) bool                   { return os.SameFile(a, b) }
func DirFS(dir string) fs.FS                        { return os.DirFS(dir) }
func NewSyscallError(s string, e error) error       { return os.NewSyscallError(s, e) }
func FindProcess(pid int) (*Process, error)         { return os.FindProcess(pid) }
func Pipe() (*os.File, *os.File, error)             { return os.Pipe() }
func NewFile(fd uintptr, name string) *File         { return &File{f: os.NewFile(fd, name), path: abs(name)} }
