// Package seam holds the AST rewriters that put simulator seams into scratch
// copies: of moq's generated output (this file), and of moq itself
// (osredirect.go, maprange.go). Nothing here ever touches /repo.
package seam

import (
	"bytes"
	"fmt"
	"go/ast"
	"go/format"
	"go/parser"
	"go/token"
	"strconv"
	"strings"
)

// Paths of the simulated packages.
const (
	SimsyncPath   = "verif/sim/simrt/simsync"
	SimatomicPath = "verif/sim/simrt/simatomic"
	SimrtPath     = "verif/sim/simrt"
	simrtName     = "moqsimrt"
)

// ErrUnsupported is returned when generated code synchronises through
// something the simulator cannot own.
type ErrUnsupported struct{ What string }

func (e *ErrUnsupported) Error() string { return "unsupported construct in generated mock: " + e.What }

type structInfo struct {
	fields   map[string]ast.Expr // field name -> type expression
	order    []string
	embedded []string // names of embedded (anonymous) fields, whose own fields are promoted
}

type inst struct {
	fset     *token.FileSet
	file     *ast.File
	structs  map[string]*structInfo
	syncName map[string]bool // local names bound to the simulated sync packages
	tmpN     int
	unsup    string
	used     bool
}

// InstrumentMock rewrites one generated mock file: the sync import is
// redirected to simsync, every statement of a method that reads or writes a
// field reached from the receiver gets a probe (a sim point) in front of it,
// read-modify-write assignments are split around the probes, and go
// statements become simulated tasks.
func InstrumentMock(src []byte) ([]byte, error) {
	fset := token.NewFileSet()
	f, err := parser.ParseFile(fset, "mock.go", src, parser.ParseComments)
	if err != nil {
		return nil, err
	}
	f.Comments = nil // comments would be misplaced by the rewrite
	in := &inst{fset: fset, file: f, structs: map[string]*structInfo{}, syncName: map[string]bool{}}
	for _, imp := range f.Imports {
		p, _ := strconv.Unquote(imp.Path.Value)
		switch p {
		case "sync":
			name := "sync"
			if imp.Name != nil {
				name = imp.Name.Name
			}
			imp.Name = ast.NewIdent(name)
			imp.Path.Value = strconv.Quote(SimsyncPath)
			in.syncName[name] = true
		case "sync/atomic":
			name := "atomic"
			if imp.Name != nil {
				name = imp.Name.Name
			}
			imp.Name = ast.NewIdent(name)
			imp.Path.Value = strconv.Quote(SimatomicPath)
			in.syncName[name] = true
		case "time", "os", "os/signal", "context", "runtime":
			// allowed in signatures; their use for synchronisation in bodies is not modelled
		}
		imp.Doc, imp.Comment = nil, nil
	}
	for _, d := range f.Decls {
		gd, ok := d.(*ast.GenDecl)
		if !ok {
			continue
		}
		gd.Doc = nil
		if gd.Tok != token.TYPE {
			continue
		}
		for _, s := range gd.Specs {
			ts := s.(*ast.TypeSpec)
			ts.Doc, ts.Comment = nil, nil
			if st, ok := ts.Type.(*ast.StructType); ok {
				in.structs[ts.Name.Name] = in.structOf(st)
			}
		}
	}
	for _, d := range f.Decls {
		fd, ok := d.(*ast.FuncDecl)
		if !ok || fd.Body == nil {
			continue
		}
		fd.Doc = nil
		// roots: the receiver and every parameter whose type is (a pointer to)
		// a struct declared in this file; ptrs: every other pointer parameter
		// (a helper that is handed &mock.calls.X dereferences it)
		ctx := &fctx{in: in, roots: map[string]*structInfo{}, ptrs: map[string]bool{}}
		addRoot := func(fl *ast.Field) {
			for _, n := range fl.Names {
				if n.Name == "_" {
					continue
				}
				if si := in.structs[recvBase(fl.Type)]; si != nil {
					ctx.roots[n.Name] = si
				} else if _, isPtr := fl.Type.(*ast.StarExpr); isPtr {
					ctx.ptrs[n.Name] = true
				}
			}
		}
		if fd.Recv != nil {
			for _, fl := range fd.Recv.List {
				addRoot(fl)
			}
		}
		if fd.Type.Params != nil {
			for _, fl := range fd.Type.Params.List {
				addRoot(fl)
			}
		}
		if len(ctx.roots) == 0 && len(ctx.ptrs) == 0 {
			in.scanUnsupported(fd.Body)
			continue
		}
		fd.Body.List = ctx.block(fd.Body.List)
	}
	if in.unsup != "" {
		return nil, &ErrUnsupported{What: in.unsup}
	}
	if in.used {
		addImport(f, simrtName, SimrtPath)
	}
	var buf bytes.Buffer
	if err := format.Node(&buf, fset, f); err != nil {
		return nil, err
	}
	return buf.Bytes(), nil
}

func addImport(f *ast.File, name, path string) {
	spec := &ast.ImportSpec{Name: ast.NewIdent(name), Path: &ast.BasicLit{Kind: token.STRING, Value: strconv.Quote(path)}}
	for _, d := range f.Decls {
		if gd, ok := d.(*ast.GenDecl); ok && gd.Tok == token.IMPORT {
			gd.Specs = append(gd.Specs, spec)
			if !gd.Lparen.IsValid() {
				gd.Lparen = gd.Pos()
				gd.Rparen = gd.End()
			}
			return
		}
	}
	gd := &ast.GenDecl{Tok: token.IMPORT, Specs: []ast.Spec{spec}}
	f.Decls = append([]ast.Decl{gd}, f.Decls...)
}

func recvBase(e ast.Expr) string {
	for {
		switch t := e.(type) {
		case *ast.StarExpr:
			e = t.X
		case *ast.ParenExpr:
			e = t.X
		case *ast.IndexExpr:
			e = t.X
		case *ast.IndexListExpr:
			e = t.X
		case *ast.Ident:
			return t.Name
		default:
			return ""
		}
	}
}

func (in *inst) structOf(st *ast.StructType) *structInfo {
	si := &structInfo{fields: map[string]ast.Expr{}}
	for _, fl := range st.Fields.List {
		fl.Doc, fl.Comment = nil, nil
		if len(fl.Names) == 0 {
			if n := recvBase(fl.Type); n != "" {
				si.fields[n] = fl.Type
				si.order = append(si.order, n)
				si.embedded = append(si.embedded, n)
			}
			continue
		}
		for _, n := range fl.Names {
			si.fields[n.Name] = fl.Type
			si.order = append(si.order, n.Name)
		}
	}
	return si
}

// isSyncType reports whether a field type is an object of a simulated sync
// package (sync.RWMutex, *sync.Mutex, atomic.Int64, ...).
func (in *inst) isSyncType(e ast.Expr) bool {
	switch t := e.(type) {
	case *ast.StarExpr:
		return in.isSyncType(t.X)
	case *ast.SelectorExpr:
		if id, ok := t.X.(*ast.Ident); ok && in.syncName[id.Name] {
			return true
		}
	case *ast.IndexExpr: // atomic.Pointer[T]
		return in.isSyncType(t.X)
	}
	return false
}

func (in *inst) subStruct(e ast.Expr) *structInfo {
	switch t := e.(type) {
	case *ast.StarExpr: // a field of pointer type: selectors go through it
		return in.subStruct(t.X)
	case *ast.ParenExpr:
		return in.subStruct(t.X)
	case *ast.StructType:
		return in.structOf(t)
	case *ast.Ident:
		return in.structs[t.Name]
	case *ast.IndexExpr:
		return in.subStruct(t.X)
	case *ast.IndexListExpr:
		return in.subStruct(t.X)
	}
	return nil
}

type access struct {
	expr  ast.Expr // the location expression, e.g. mock.calls.Get
	label string
	write bool
	isPtr bool // expr already is a pointer to the location
	// viaPtr: the location lies behind a pointer-typed field that may still be
	// nil when the probe runs: the probe takes the address inside a closure
	// and gives up if that panics
	viaPtr bool
}

type fctx struct {
	lastViaPtr  bool     // the last resolve went through a pointer-typed field
	lastPtrExpr ast.Expr // ... namely this one (itself a location that is read)
	lastPtrName string
	in          *inst
	roots       map[string]*structInfo // identifiers that denote (pointers to) structs of this file
	ptrs        map[string]bool        // other pointer-typed parameters
	// sliceAlias: locals assigned from a probed slice (calls := mock.calls.Get):
	// writing calls[i] writes an element of that slice
	sliceAlias map[string]string
	// lastType is the declared type of the field the last successful resolve ended at
	lastType ast.Expr
}

func isSliceType(e ast.Expr) bool {
	a, ok := e.(*ast.ArrayType)
	return ok && a.Len == nil
}

func isArrayOrSliceType(e ast.Expr) bool {
	_, ok := e.(*ast.ArrayType)
	return ok
}

// promoted finds name among the fields promoted from si's embedded structs
// and returns the path of embedded field names leading to it.
func (c *fctx) promoted(si *structInfo, name string, depth int) ([]string, *structInfo) {
	if depth > 3 {
		return nil, nil
	}
	for _, e := range si.embedded {
		sub := c.in.subStruct(si.fields[e])
		if sub == nil {
			continue
		}
		if _, ok := sub.fields[name]; ok {
			return []string{e}, sub
		}
		if path, holder := c.promoted(sub, name, depth+1); holder != nil {
			return append([]string{e}, path...), holder
		}
	}
	return nil, nil
}

// resolve splits a selector chain rooted at the receiver into the longest
// prefix that names a plain field location. ok=false when the chain is not
// rooted at the receiver or names no field (a method call, say). sync=true
// when it reaches a simulated sync object (no probe wanted).
func (c *fctx) resolve(e ast.Expr) (loc ast.Expr, label string, leaves []access, sync, ok bool) {
	var chain []string
	rootName := ""
	cur := e
	for {
		switch t := cur.(type) {
		case *ast.SelectorExpr:
			chain = append([]string{t.Sel.Name}, chain...)
			cur = t.X
			continue
		case *ast.ParenExpr:
			cur = t.X
			continue
		case *ast.StarExpr:
			cur = t.X
			continue
		case *ast.Ident:
			if c.roots[t.Name] == nil {
				return nil, "", nil, false, false
			}
			rootName = t.Name
		default:
			return nil, "", nil, false, false
		}
		break
	}
	if len(chain) == 0 {
		return nil, "", nil, false, false
	}
	si := c.roots[rootName]
	var built ast.Expr = ast.NewIdent(rootName)
	var names []string
	c.lastViaPtr, c.lastPtrExpr, c.lastPtrName = false, nil, ""
	for i, name := range chain {
		ft, isField := si.fields[name]
		if !isField {
			// a field promoted from an embedded struct?
			if path, holder := c.promoted(si, name, 0); holder != nil {
				for _, e := range path {
					built = &ast.SelectorExpr{X: built, Sel: ast.NewIdent(e)}
					names = append(names, e)
				}
				si = holder
				ft, isField = si.fields[name], true
			}
		}
		if !isField {
			// a method: of the mock itself (i == 0) or of a struct-typed field
			// (mock.calls.Get.add(x)): calling it is not an access, its body is
			// instrumented where it is declared
			_ = i
			return nil, "", nil, false, false
		}
		built = &ast.SelectorExpr{X: built, Sel: ast.NewIdent(name)}
		names = append(names, name)
		c.lastType = ft
		if c.in.isSyncType(ft) {
			return built, strings.Join(names, "."), nil, true, true
		}
		sub := c.in.subStruct(ft)
		if sub == nil {
			return built, strings.Join(names, "."), nil, false, true
		}
		if _, isPtr := ft.(*ast.StarExpr); isPtr {
			if i == len(chain)-1 {
				// the pointer itself is what is read or written (mock.st = &state{},
				// mock.st == nil): one location, nothing behind it is touched
				return built, strings.Join(names, "."), nil, false, true
			}
			c.lastViaPtr, c.lastPtrExpr, c.lastPtrName = true, built, strings.Join(names, ".")
		}
		si = sub
		if i == len(chain)-1 {
			// the whole struct is accessed: every leaf field is
			leaves = c.leavesOf(built, names, sub)
			return built, strings.Join(names, "."), leaves, false, true
		}
	}
	return built, strings.Join(names, "."), nil, false, true
}

func (c *fctx) leavesOf(base ast.Expr, names []string, si *structInfo) []access {
	var out []access
	for _, n := range si.order {
		ft := si.fields[n]
		e := &ast.SelectorExpr{X: base, Sel: ast.NewIdent(n)}
		nn := append(append([]string(nil), names...), n)
		if c.in.isSyncType(ft) {
			continue
		}
		if _, isPtr := ft.(*ast.StarExpr); !isPtr {
			if sub := c.in.subStruct(ft); sub != nil {
				out = append(out, c.leavesOf(e, nn, sub)...)
				continue
			}
		}
		out = append(out, access{expr: e, label: strings.Join(nn, ".")})
	}
	return out
}

// collect gathers receiver-rooted accesses in an expression (reads), skipping
// function literal bodies (instrumented on their own).
func (c *fctx) collect(e ast.Node, write bool, out *[]access) {
	if e == nil {
		return
	}
	switch t := e.(type) {
	case *ast.FuncLit:
		t.Body.List = c.block(t.Body.List)
		return
	case *ast.SelectorExpr:
		loc, label, leaves, sync, ok := c.resolve(t)
		if ok {
			if sync {
				return
			}
			if c.lastViaPtr {
				// the pointer on the way is read
				*out = append(*out, access{expr: c.lastPtrExpr, label: c.lastPtrName})
			}
			if leaves != nil {
				for _, l := range leaves {
					l.write, l.viaPtr = write, c.lastViaPtr
					*out = append(*out, l)
				}
				return
			}
			*out = append(*out, access{expr: loc, label: label, write: write, viaPtr: c.lastViaPtr})
			return
		}
		if _, _, leaves, _, okX := c.resolve(t.X); okX && leaves != nil {
			// a method of a struct-typed field (mock.calls.Get.add): taking the
			// receiver's address is not an access; the method's own body is probed
			return
		}
		c.collect(t.X, false, out)
		return
	case *ast.UnaryExpr:
		if t.Op == token.ARROW {
			c.in.unsup = "channel receive"
		}
		if t.Op == token.AND {
			// taking an address is not an access; the pointer is followed
			// where it is dereferenced (pointer parameters, local pointers)
			if _, _, _, _, ok := c.resolve(t.X); ok {
				return
			}
			c.collect(t.X, false, out)
			return
		}
		c.collect(t.X, false, out)
		return
	case *ast.CallExpr:
		c.collect(t.Fun, false, out)
		syncCall := false
		if sel, ok := t.Fun.(*ast.SelectorExpr); ok {
			if id, ok := sel.X.(*ast.Ident); ok && c.in.syncName[id.Name] {
				syncCall = true // atomic.AddInt64(&mock.n, 1): the simulated package owns the access
			}
		}
		for _, a := range t.Args {
			if u, ok := a.(*ast.UnaryExpr); ok && syncCall && u.Op == token.AND {
				continue
			}
			c.collect(a, false, out)
		}
		return
	case *ast.IndexExpr:
		c.collect(t.X, write, out)
		c.collect(t.Index, false, out)
		return
	case *ast.StarExpr:
		if id, ok := t.X.(*ast.Ident); ok && c.roots[id.Name] != nil {
			for _, l := range c.leavesOf(ast.NewIdent(id.Name), nil, c.roots[id.Name]) {
				l.write = write
				*out = append(*out, l)
			}
			return
		}
		if id, ok := t.X.(*ast.Ident); ok && c.ptrs[id.Name] {
			*out = append(*out, access{expr: ast.NewIdent(id.Name), label: "*" + id.Name, write: write, isPtr: true})
			return
		}
		c.collect(t.X, write, out)
		return
	}
	// generic traversal of remaining expression kinds
	ast.Inspect(e, func(n ast.Node) bool {
		if n == e {
			return true
		}
		switch n.(type) {
		case ast.Expr:
			c.collect(n, false, out)
			return false
		}
		return true
	})
}

// elementOf recognises an assignment target inside an element of a probed
// slice (x[i] or x[i].f.g) and returns the element as the written location,
// plus a read of the slice header through the ordinary path.
func (c *fctx) elementOf(e ast.Expr) *access {
	cur := e
	for {
		switch t := cur.(type) {
		case *ast.SelectorExpr:
			cur = t.X
			continue
		case *ast.ParenExpr:
			cur = t.X
			continue
		case *ast.IndexExpr:
			if id, isID := t.X.(*ast.Ident); isID && c.sliceAlias[id.Name] != "" {
				// a local that was assigned from a probed slice shares its elements
				return &access{expr: t, label: c.sliceAlias[id.Name] + "[i]", write: true}
			}
			_, label, leaves, sync, ok := c.resolve(t.X)
			if !ok || sync || leaves != nil || !isArrayOrSliceType(c.lastType) {
				return nil // in particular a map: m[k] is not addressable, the map itself is the location
			}
			return &access{expr: t, label: label + "[i]", write: true}
		}
		return nil
	}
}

func (c *fctx) probes(acc []access) []ast.Stmt {
	var out []ast.Stmt
	seen := map[string]bool{}
	for _, a := range acc {
		k := a.label
		fn := "R"
		if a.write {
			fn = "W"
			k = "w:" + k
		}
		if seen[k] {
			continue
		}
		seen[k] = true
		c.in.used = true
		if a.viaPtr {
			out = append(out, &ast.ExprStmt{X: &ast.CallExpr{
				Fun: &ast.SelectorExpr{X: ast.NewIdent(simrtName), Sel: ast.NewIdent(fn + "Any")},
				Args: []ast.Expr{&ast.FuncLit{
					Type: &ast.FuncType{Params: &ast.FieldList{}, Results: &ast.FieldList{List: []*ast.Field{{Type: ast.NewIdent("any")}}}},
					Body: &ast.BlockStmt{List: []ast.Stmt{&ast.ReturnStmt{Results: []ast.Expr{ptrTo(a)}}}},
				}, &ast.BasicLit{Kind: token.STRING, Value: strconv.Quote(a.label)}},
			}})
			continue
		}
		out = append(out, &ast.ExprStmt{X: &ast.CallExpr{
			Fun:  &ast.SelectorExpr{X: ast.NewIdent(simrtName), Sel: ast.NewIdent(fn)},
			Args: []ast.Expr{ptrTo(a), &ast.BasicLit{Kind: token.STRING, Value: strconv.Quote(a.label)}},
		}})
	}
	return out
}

// isAppendCall: only "x = append(x, ...)" is split around the probes (the
// temporary has exactly the slice's type); arithmetic on untyped constants
// would be retyped by a temporary.
func isAppendCall(e ast.Expr) bool {
	call, ok := e.(*ast.CallExpr)
	if !ok {
		return false
	}
	id, ok := call.Fun.(*ast.Ident)
	return ok && id.Name == "append"
}

func ptrTo(a access) ast.Expr {
	if a.isPtr {
		return a.expr
	}
	return &ast.UnaryExpr{Op: token.AND, X: a.expr}
}

func (c *fctx) block(list []ast.Stmt) []ast.Stmt {
	var out []ast.Stmt
	for _, s := range list {
		out = append(out, c.stmt(s)...)
	}
	return out
}

func (c *fctx) stmt(s ast.Stmt) []ast.Stmt {
	switch t := s.(type) {
	case *ast.AssignStmt:
		if t.Tok == token.DEFINE && len(t.Lhs) == len(t.Rhs) {
			for i, r := range t.Rhs {
				if id, ok := t.Lhs[i].(*ast.Ident); ok && id.Name != "_" {
					if _, label, leaves, sync, ok := c.resolve(r); ok && !sync && leaves == nil && isSliceType(c.lastType) {
						if c.sliceAlias == nil {
							c.sliceAlias = map[string]string{}
						}
						c.sliceAlias[id.Name] = label
					} else if rid, isID := r.(*ast.Ident); isID && c.roots[rid.Name] != nil {
						c.roots[id.Name] = c.roots[rid.Name] // m := mock
					}
				}
				if u, ok := r.(*ast.UnaryExpr); ok && u.Op == token.AND {
					if _, _, leaves, sync, ok := c.resolve(u.X); ok && !sync {
						if id, ok := t.Lhs[i].(*ast.Ident); ok && id.Name != "_" {
							if leaves != nil {
								// c := &mock.calls : c.X are the same locations
								if sub := c.in.subStruct(c.lastType); sub != nil {
									c.roots[id.Name] = sub
								}
							} else {
								c.ptrs[id.Name] = true // p := &mock.calls.X : *p is that location
							}
						}
					}
				}
			}
		}
		var reads, writes []access
		for _, r := range t.Rhs {
			c.collect(r, false, &reads)
		}
		for _, l := range t.Lhs {
			if _, ok := l.(*ast.Ident); ok {
				continue // a plain local variable
			}
			if el := c.elementOf(l); el != nil {
				// mock.calls.X[i].F = v : a write into a record that snapshots may alias
				writes = append(writes, *el)
				continue
			}
			c.collect(l, true, &writes)
		}
		if t.Tok != token.ASSIGN && t.Tok != token.DEFINE {
			// x op= y reads x too
			for _, w := range writes {
				w.write = false
				reads = append(reads, w)
			}
		}
		if len(writes) == 0 {
			return append(c.probes(reads), s)
		}
		if len(t.Lhs) == 1 && len(t.Rhs) == 1 && len(reads) > 0 && t.Tok == token.ASSIGN && isAppendCall(t.Rhs[0]) {
			// read-modify-write: probe-read; evaluate into a temporary; probe-write; store
			c.in.tmpN++
			tmp := ast.NewIdent(fmt.Sprintf("moqsimTmp%d", c.in.tmpN))
			rhs := t.Rhs[0]
			if isOpAssign(t.Tok) {
				rhs = &ast.BinaryExpr{X: t.Lhs[0], Op: opOf(t.Tok), Y: &ast.ParenExpr{X: t.Rhs[0]}}
			}
			var out []ast.Stmt
			out = append(out, c.probes(reads)...)
			if call, ok := rhs.(*ast.CallExpr); ok && len(call.Args) > 0 && !call.Ellipsis.IsValid() || ok && len(call.Args) > 0 {
				if id, isIdent := call.Fun.(*ast.Ident); isIdent && id.Name == "append" {
					if st, isStar := call.Args[0].(*ast.StarExpr); isStar {
						if pid, ok := st.X.(*ast.Ident); ok && c.ptrs[pid.Name] {
							c.in.used = true
							out = append(out, &ast.ExprStmt{X: &ast.CallExpr{
								Fun:  &ast.SelectorExpr{X: ast.NewIdent(simrtName), Sel: ast.NewIdent("AppendProbe")},
								Args: []ast.Expr{call.Args[0], &ast.BasicLit{Kind: token.STRING, Value: strconv.Quote("*" + pid.Name)}},
							}})
						}
					} else if loc, label, leaves, sync, ok := c.resolve(call.Args[0]); ok && !sync && leaves == nil && isSliceType(c.lastType) {
						c.in.used = true
						out = append(out, &ast.ExprStmt{X: &ast.CallExpr{
							Fun:  &ast.SelectorExpr{X: ast.NewIdent(simrtName), Sel: ast.NewIdent("AppendProbe")},
							Args: []ast.Expr{loc, &ast.BasicLit{Kind: token.STRING, Value: strconv.Quote(label)}},
						}})
					}
				}
			}
			out = append(out, &ast.AssignStmt{Lhs: []ast.Expr{tmp}, Tok: token.DEFINE, Rhs: []ast.Expr{rhs}})
			out = append(out, c.probes(writes)...)
			out = append(out, &ast.AssignStmt{Lhs: t.Lhs, Tok: token.ASSIGN, Rhs: []ast.Expr{tmp}})
			return out
		}
		return append(append(c.probes(reads), c.probes(writes)...), s)
	case *ast.IncDecStmt:
		var acc []access
		c.collect(t.X, true, &acc)
		var reads []access
		for _, a := range acc {
			a.write = false
			reads = append(reads, a)
		}
		return append(append(c.probes(reads), c.probes(acc)...), s)
	case *ast.ExprStmt:
		var acc []access
		c.collect(t.X, false, &acc)
		pre := c.probes(acc)
		if call, ok := t.X.(*ast.CallExpr); ok && len(call.Args) > 0 {
			if id, ok := call.Fun.(*ast.Ident); ok && (id.Name == "clear" || id.Name == "copy") {
				if _, label, leaves, sync, ok := c.resolve(call.Args[0]); ok && !sync && leaves == nil && isSliceType(c.lastType) {
					c.in.used = true
					pre = append(pre, &ast.ExprStmt{X: &ast.CallExpr{
						Fun:  &ast.SelectorExpr{X: ast.NewIdent(simrtName), Sel: ast.NewIdent("ElemsProbe")},
						Args: []ast.Expr{call.Args[0], &ast.BasicLit{Kind: token.STRING, Value: strconv.Quote(label)}},
					}})
				}
			}
		}
		return append(pre, s)
	case *ast.ReturnStmt:
		var acc []access
		for _, r := range t.Results {
			c.collect(r, false, &acc)
		}
		return append(c.probes(acc), s)
	case *ast.DeferStmt:
		var acc []access
		c.collect(t.Call, false, &acc)
		return append(c.probes(acc), s)
	case *ast.GoStmt:
		var acc []access
		c.collect(t.Call, false, &acc)
		c.in.used = true
		call := &ast.ExprStmt{X: &ast.CallExpr{
			Fun: &ast.SelectorExpr{X: ast.NewIdent(simrtName), Sel: ast.NewIdent("Go")},
			Args: []ast.Expr{&ast.FuncLit{
				Type: &ast.FuncType{Params: &ast.FieldList{}},
				Body: &ast.BlockStmt{List: []ast.Stmt{&ast.ExprStmt{X: t.Call}}},
			}},
		}}
		return append(c.probes(acc), call)
	case *ast.IfStmt:
		var pre []ast.Stmt
		if t.Init != nil {
			init := c.stmt(t.Init)
			pre = append(pre, init[:len(init)-1]...)
			t.Init = init[len(init)-1]
		}
		var acc []access
		c.collect(t.Cond, false, &acc)
		pre = append(pre, c.probes(acc)...)
		t.Body.List = c.block(t.Body.List)
		if t.Else != nil {
			els := c.stmt(t.Else)
			if len(els) == 1 {
				t.Else = els[0]
			} else {
				t.Else = &ast.BlockStmt{List: els}
			}
		}
		return append(pre, s)
	case *ast.BlockStmt:
		t.List = c.block(t.List)
		return []ast.Stmt{s}
	case *ast.ForStmt:
		var pre []ast.Stmt
		if t.Init != nil {
			init := c.stmt(t.Init)
			pre = append(pre, init[:len(init)-1]...)
			t.Init = init[len(init)-1]
		}
		var acc []access
		if t.Cond != nil {
			c.collect(t.Cond, false, &acc)
		}
		// the condition is evaluated before every iteration: its probes stand
		// before the loop and at the top of the body (where no continue skips
		// them); what the post statement touches is probed at the end of the body
		var post []ast.Stmt
		if t.Post != nil {
			ps := c.stmt(t.Post)
			post = ps[:len(ps)-1]
			t.Post = ps[len(ps)-1]
		}
		body := append(c.probes(acc), c.block(t.Body.List)...)
		t.Body.List = append(body, post...)
		return append(append(pre, c.probes(acc)...), s)
	case *ast.RangeStmt:
		var acc []access
		c.collect(t.X, false, &acc)
		t.Body.List = c.block(t.Body.List)
		return append(c.probes(acc), s)
	case *ast.SwitchStmt:
		var pre []ast.Stmt
		if t.Init != nil {
			init := c.stmt(t.Init)
			pre = append(pre, init[:len(init)-1]...)
			t.Init = init[len(init)-1]
		}
		var acc []access
		if t.Tag != nil {
			c.collect(t.Tag, false, &acc)
		}
		for _, cc := range t.Body.List {
			cl := cc.(*ast.CaseClause)
			for _, e := range cl.List {
				c.collect(e, false, &acc)
			}
			cl.Body = c.block(cl.Body)
		}
		return append(append(pre, c.probes(acc)...), s)
	case *ast.TypeSwitchStmt:
		for _, cc := range t.Body.List {
			cl := cc.(*ast.CaseClause)
			cl.Body = c.block(cl.Body)
		}
		return []ast.Stmt{s}
	case *ast.LabeledStmt:
		inner := c.stmt(t.Stmt)
		t.Stmt = inner[len(inner)-1]
		return append(inner[:len(inner)-1], s)
	case *ast.DeclStmt:
		var acc []access
		if gd, ok := t.Decl.(*ast.GenDecl); ok {
			for _, sp := range gd.Specs {
				if vs, ok := sp.(*ast.ValueSpec); ok {
					for _, v := range vs.Values {
						c.collect(v, false, &acc)
					}
				}
			}
		}
		return append(c.probes(acc), s)
	case *ast.SendStmt:
		c.in.unsup = "channel send"
	case *ast.SelectStmt:
		c.in.unsup = "select"
	}
	return []ast.Stmt{s}
}

func (in *inst) scanUnsupported(n ast.Node) {
	ast.Inspect(n, func(n ast.Node) bool {
		switch t := n.(type) {
		case *ast.SendStmt:
			in.unsup = "channel send"
		case *ast.SelectStmt:
			in.unsup = "select"
		case *ast.GoStmt:
			in.unsup = "go statement outside a mock method"
		case *ast.UnaryExpr:
			if t.Op == token.ARROW {
				in.unsup = "channel receive"
			}
		}
		return true
	})
}

func isOpAssign(t token.Token) bool {
	switch t {
	case token.ADD_ASSIGN, token.SUB_ASSIGN, token.MUL_ASSIGN, token.QUO_ASSIGN, token.REM_ASSIGN,
		token.AND_ASSIGN, token.OR_ASSIGN, token.XOR_ASSIGN, token.SHL_ASSIGN, token.SHR_ASSIGN, token.AND_NOT_ASSIGN:
		return true
	}
	return false
}

func opOf(t token.Token) token.Token {
	switch t {
	case token.ADD_ASSIGN:
		return token.ADD
	case token.SUB_ASSIGN:
		return token.SUB
	case token.MUL_ASSIGN:
		return token.MUL
	case token.QUO_ASSIGN:
		return token.QUO
	case token.REM_ASSIGN:
		return token.REM
	case token.AND_ASSIGN:
		return token.AND
	case token.OR_ASSIGN:
		return token.OR
	case token.XOR_ASSIGN:
		return token.XOR
	case token.SHL_ASSIGN:
		return token.SHL
	case token.SHR_ASSIGN:
		return token.SHR
	}
	return token.AND_NOT
}
