package seam

import (
	"strings"
	"testing"
)

// A lazily allocated *state behind sync.Once: the pointer field is a location
// of its own, and what lies behind it is probed through a closure that
// tolerates a nil pointer (the probe runs before the statement it guards).
func TestPointerFieldIsALocation(t *testing.T) {
	src := `package p

import "sync"

type state struct {
	Get []struct{ A int }
	n   int
}

type M struct {
	once sync.Once
	mu   sync.Mutex
	st   *state
}

func (mock *M) Get(a int) {
	mock.once.Do(func() { mock.st = &state{} })
	mock.mu.Lock()
	if mock.st != nil && mock.st.n >= 0 {
		mock.st.Get = append(mock.st.Get, struct{ A int }{a})
	}
	mock.mu.Unlock()
}
`
	out, err := InstrumentMock([]byte(src))
	if err != nil {
		t.Fatal(err)
	}
	got := string(out)
	if strings.Contains(got, "moqsimrt.W(&mock.st.Get") || strings.Contains(got, "moqsimrt.R(&mock.st.n") {
		t.Fatalf("dereferencing probe through a pointer field:\n%s", got)
	}
	for _, want := range []string{`moqsimrt.W(&mock.st, "st")`, `moqsimrt.R(&mock.st, "st")`, "moqsimrt.RAny(func() any"} {
		if !strings.Contains(got, want) {
			t.Fatalf("missing %q in:\n%s", want, got)
		}
	}
}

// Locals that alias the receiver or one of its slices are followed; the parts
// of a for statement are probed.
func TestAliasesAndLoopParts(t *testing.T) {
	src := `package p

import "sync"

type M struct {
	mu    sync.RWMutex
	calls []struct{ A int }
	n     int
}

func (mock *M) Zero() {
	mock.mu.RLock()
	calls := mock.calls
	mock.mu.RUnlock()
	for i := mock.n; i < len(calls); i++ {
		if i == 3 {
			continue
		}
		calls[i] = struct{ A int }{}
	}
	m := mock
	m.calls = nil
	for j := 0; j < mock.n; mock.n-- {
		_ = j
	}
}
`
	out, err := InstrumentMock([]byte(src))
	if err != nil {
		t.Fatal(err)
	}
	got := string(out)
	for _, want := range []string{`moqsimrt.W(&calls[i], "calls[i]")`, `moqsimrt.W(&m.calls, "calls")`, `moqsimrt.R(&mock.n, "n")`, `moqsimrt.W(&mock.n, "n")`} {
		if !strings.Contains(got, want) {
			t.Fatalf("missing %q in:\n%s", want, got)
		}
	}
}
