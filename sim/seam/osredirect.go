package seam

import (
	"bytes"
	"go/ast"
	"go/format"
	"go/parser"
	"go/token"
	"io/fs"
	"os"
	"path/filepath"
	"strconv"
	"strings"
)

// Paths of the simulated os packages.
const (
	SimosPath     = "verif/sim/simos"
	SimioutilPath = "verif/sim/simos/simioutil"
)

// RedirectImports rewrites, in every non-test Go file of the module rooted at
// dir (nested modules, testdata and testpackages excluded), the imports named
// in redirect (path -> new path), keeping the local name the file used. It
// returns the files it changed.
func RedirectImports(dir string, redirect map[string]string) ([]string, error) {
	var changed []string
	err := filepath.WalkDir(dir, func(p string, d fs.DirEntry, err error) error {
		if err != nil {
			return err
		}
		if d.IsDir() {
			n := d.Name()
			if n == ".git" || n == "testdata" || n == "testpackages" || n == "vendor" {
				return filepath.SkipDir
			}
			if p != dir {
				if _, err := os.Stat(filepath.Join(p, "go.mod")); err == nil {
					return filepath.SkipDir
				}
			}
			return nil
		}
		if !strings.HasSuffix(p, ".go") || strings.HasSuffix(p, "_test.go") {
			return nil
		}
		src, err := os.ReadFile(p)
		if err != nil {
			return err
		}
		fset := token.NewFileSet()
		f, err := parser.ParseFile(fset, p, src, parser.ParseComments)
		if err != nil {
			return err
		}
		dirty := false
		for _, imp := range f.Imports {
			path, _ := strconv.Unquote(imp.Path.Value)
			to, ok := redirect[path]
			if !ok {
				continue
			}
			if imp.Name == nil {
				base := path
				if i := strings.LastIndex(base, "/"); i >= 0 {
					base = base[i+1:]
				}
				if path == "math/rand/v2" {
					base = "rand" // a major-version suffix is not the package name
				}
				imp.Name = ast.NewIdent(base)
			}
			imp.Path.Value = strconv.Quote(to)
			dirty = true
		}
		if !dirty {
			return nil
		}
		var buf bytes.Buffer
		if err := format.Node(&buf, fset, f); err != nil {
			return err
		}
		changed = append(changed, p)
		return os.WriteFile(p, buf.Bytes(), 0o644)
	})
	return changed, err
}

// AddSimRequire makes a scratch copy's go.mod depend on the simulator module.
func AddSimRequire(dir, simDir string) error {
	p := filepath.Join(dir, "go.mod")
	data, err := os.ReadFile(p)
	if err != nil {
		return err
	}
	s := string(data) + "\nrequire verif/sim v0.0.0\n\nreplace verif/sim => " + simDir + "\n"
	return os.WriteFile(p, []byte(s), 0o644)
}
