package seam

import (
	"bytes"
	"fmt"
	"go/ast"
	"go/format"
	"go/token"
	"go/types"
	"os"
	"path/filepath"
	"strconv"
	"strings"

	"golang.org/x/tools/go/ast/astutil"
	"golang.org/x/tools/go/packages"
)

// Paths of the generator-side hooks.
const (
	SimhookPath  = "verif/sim/simhook"
	SimrandPath  = "verif/sim/simhook/simrand"
	Simrand2Path = "verif/sim/simhook/simrand2"
	SimloadPath  = "verif/sim/simhook/simload"
	simhookName  = "moqsimhook"
	simloadName  = "moqsimload"
)

// GenSeamReport says what the generator seams touched.
type GenSeamReport struct {
	RangeSites []string // file:line of every rewritten map range
	ClockSites []string // file:line of every redirected clock read
	RandFiles  []string
	LoadSites  []string // packages.Load calls memoised (in-process driver only)
	GoSites    []string // go statements turned into simulated tasks (in-process driver only)
	// GoroutinesOwned is false when moq's code uses channel operations: its
	// goroutines then stay real and only repetition can expose their scheduling
	GoroutinesOwned bool
	GoroutinesNote  string
	SharedProbes    int // files in which shared-state accesses were probed (only when moq has go statements)
	// Concurrent: moq's own code starts goroutines or uses mutexes, pools, sync
	// maps, wait groups or atomics, i.e. devices whose purpose is concurrent
	// use; only then are two generator instances also run at the same time (the
	// property does not ask for that; a sync.Once alone does not count)
	Concurrent bool
}

// SeamGenerator rewrites the scratch copy of moq rooted at dir (type-driven,
// go/types): every range over a map-typed expression iterates
// simhook.Keys(m) instead, time.Now/Since/Until read the simulated clock, and
// math/rand is redirected to a clock-derived stand-in. env is the go command
// environment used to load the packages.
func SeamGenerator(dir string, env []string, memoLoad bool, ownGoroutines bool) (*GenSeamReport, error) {
	rep := &GenSeamReport{}
	cfg := &packages.Config{
		Mode: packages.NeedName | packages.NeedFiles | packages.NeedCompiledGoFiles | packages.NeedSyntax |
			packages.NeedTypes | packages.NeedTypesInfo | packages.NeedImports,
		Dir: dir,
		Env: env,
	}
	pkgs, err := packages.Load(cfg, "./...")
	if err != nil {
		return nil, err
	}
	rep.GoroutinesOwned = ownGoroutines
	hasGo := false
	modPkgs := map[*types.Package]bool{}
	// the generator proper: what the command at the module root and the library
	// package import (test inputs and examples of the repository also contain
	// generated mocks, which import sync)
	core := map[string]bool{}
	var reach func(p *packages.Package)
	reach = func(p *packages.Package) {
		if core[p.PkgPath] {
			return
		}
		core[p.PkgPath] = true
		for _, q := range p.Imports {
			reach(q)
		}
	}
	for _, p := range pkgs {
		if len(p.GoFiles) > 0 && (filepath.Dir(p.GoFiles[0]) == filepath.Clean(dir) || strings.HasSuffix(p.PkgPath, "/pkg/moq")) {
			reach(p)
		}
	}
	for _, p := range pkgs {
		modPkgs[p.Types] = true
		if len(core) > 0 && !core[p.PkgPath] {
			continue
		}
		for i, f := range p.Syntax {
			if i < len(p.CompiledGoFiles) && strings.HasPrefix(p.CompiledGoFiles[i], dir) && !strings.HasSuffix(p.CompiledGoFiles[i], "_test.go") {
				ast.Inspect(f, func(n ast.Node) bool {
					if _, ok := n.(*ast.GoStmt); ok {
						hasGo = true
						rep.Concurrent = true
					}
					return true
				})
				for _, im := range f.Imports {
					if ip := strings.Trim(im.Path.Value, `"`); ip == "sync/atomic" {
						rep.Concurrent = true
					}
				}
				ast.Inspect(f, func(n ast.Node) bool {
					sel, ok := n.(*ast.SelectorExpr)
					if !ok {
						return true
					}
					if obj, ok := p.TypesInfo.Uses[sel.Sel]; ok && obj.Pkg() != nil && obj.Pkg().Path() == "sync" {
						switch obj.Name() {
						case "Mutex", "RWMutex", "Pool", "Map", "WaitGroup", "Cond", "NewCond":
							rep.Concurrent = true
						}
					}
					return true
				})
			}
		}
	}
	if ownGoroutines {
		for _, p := range pkgs {
			for i, f := range p.Syntax {
				if i >= len(p.CompiledGoFiles) || !strings.HasPrefix(p.CompiledGoFiles[i], dir) || strings.HasSuffix(p.CompiledGoFiles[i], "_test.go") {
					continue
				}
				ast.Inspect(f, func(n ast.Node) bool {
					switch t := n.(type) {
					case *ast.SendStmt, *ast.SelectStmt:
						rep.GoroutinesOwned = false
					case *ast.UnaryExpr:
						if t.Op == token.ARROW {
							rep.GoroutinesOwned = false
						}
					case *ast.RangeStmt:
						if tt := p.TypesInfo.TypeOf(t.X); tt != nil {
							if _, ok := tt.Underlying().(*types.Chan); ok {
								rep.GoroutinesOwned = false
							}
						}
					}
					return true
				})
			}
		}
		if !rep.GoroutinesOwned {
			rep.GoroutinesNote = "moq's code uses channel operations, which the simulator does not own: goroutines stay real"
		}
	}
	for _, p := range pkgs {
		if len(p.Errors) > 0 {
			return nil, fmt.Errorf("loading %s: %v", p.PkgPath, p.Errors[0])
		}
		for i, f := range p.Syntax {
			if i >= len(p.CompiledGoFiles) {
				continue
			}
			path := p.CompiledGoFiles[i]
			if !strings.HasPrefix(path, dir) || strings.HasSuffix(path, "_test.go") {
				continue
			}
			rel, _ := filepath.Rel(dir, path)
			if rep.GoroutinesOwned && hasGo {
				// moq starts goroutines: every access to its package-level
				// variables and to fields of its own structs becomes a sim
				// point, so that unsynchronised sharing can interleave
				if probeShared(p, f, modPkgs) {
					rep.SharedProbes++
				}
			}
			n := 0
			var unsupported error
			dirty, usesHook, usesLoad, usesRt := false, false, false, false
			// post-order, so that nested ranges are rewritten before the enclosing one is replaced
			astutil.Apply(f, nil, func(c *astutil.Cursor) bool {
				switch t := c.Node().(type) {
				case *ast.GoStmt:
					if rep.GoroutinesOwned {
						rep.GoSites = append(rep.GoSites, fmt.Sprintf("%s:%d", rel, p.Fset.Position(t.Pos()).Line))
						c.Replace(&ast.ExprStmt{X: &ast.CallExpr{
							Fun: &ast.SelectorExpr{X: ast.NewIdent(simrtName), Sel: ast.NewIdent("Go")},
							Args: []ast.Expr{&ast.FuncLit{Type: &ast.FuncType{Params: &ast.FieldList{}},
								Body: &ast.BlockStmt{List: []ast.Stmt{&ast.ExprStmt{X: t.Call}}}}},
						}})
						usesRt = true
						dirty = true
					}
				case *ast.RangeStmt:
					tt := p.TypesInfo.TypeOf(t.X)
					if tt == nil {
						return true
					}
					if _, ok := tt.Underlying().(*types.Map); !ok {
						return true
					}
					if t.Key == nil && t.Value == nil {
						return true
					}
					if _, labeled := c.Parent().(*ast.LabeledStmt); labeled {
						unsupported = fmt.Errorf("%s: labeled range over a map", p.Fset.Position(t.Pos()))
						return true
					}
					n++
					site := fmt.Sprintf("%s:%d", rel, p.Fset.Position(t.Pos()).Line)
					rep.RangeSites = append(rep.RangeSites, site)
					c.Replace(rewriteRange(t, n, site))
					usesHook = true
					dirty = true
				case *ast.SelectorExpr:
					if fn, ok := p.TypesInfo.Uses[t.Sel].(*types.Func); ok && memoLoad && fn.Pkg() != nil && fn.Pkg().Path() == "golang.org/x/tools/go/packages" && fn.Name() == "Load" {
						rep.LoadSites = append(rep.LoadSites, fmt.Sprintf("%s:%d", rel, p.Fset.Position(t.Pos()).Line))
						c.Replace(&ast.SelectorExpr{X: ast.NewIdent(simloadName), Sel: ast.NewIdent("Load")})
						usesLoad = true
						dirty = true
						return true
					}
					if fn, ok := p.TypesInfo.Uses[t.Sel].(*types.Func); ok && fn.Pkg() != nil && (fn.Pkg().Path() == "maps" || fn.Pkg().Path() == "golang.org/x/exp/maps") {
						// iterators and slices in map iteration order
						to := ""
						switch {
						case fn.Pkg().Path() == "maps" && (fn.Name() == "Keys" || fn.Name() == "Values" || fn.Name() == "All"):
							to = "Maps" + fn.Name()
						case fn.Pkg().Path() != "maps" && (fn.Name() == "Keys" || fn.Name() == "Values"):
							to = "X" + fn.Name()
						}
						if _, isCall := c.Parent().(*ast.CallExpr); to != "" && isCall {
							rep.RangeSites = append(rep.RangeSites, fmt.Sprintf("%s:%d (%s.%s)", rel, p.Fset.Position(t.Pos()).Line, fn.Pkg().Path(), fn.Name()))
							c.Replace(&ast.SelectorExpr{X: ast.NewIdent(simhookName), Sel: ast.NewIdent(to)})
							usesHook = true
							dirty = true
							return true
						}
					}
					if fn, ok := p.TypesInfo.Uses[t.Sel].(*types.Func); ok && fn.Pkg() != nil && fn.Pkg().Path() == "time" {
						switch fn.Name() {
						case "Now", "Since", "Until":
							if sig, ok := fn.Type().(*types.Signature); ok && sig.Recv() == nil {
								rep.ClockSites = append(rep.ClockSites, fmt.Sprintf("%s:%d", rel, p.Fset.Position(t.Pos()).Line))
								c.Replace(&ast.SelectorExpr{X: ast.NewIdent(simhookName), Sel: ast.NewIdent(fn.Name())})
								usesHook = true
								dirty = true
							}
						}
					}
				}
				return true
			})
			if unsupported != nil {
				return nil, &ErrUnsupported{What: unsupported.Error()}
			}
			if !dirty && !(rep.GoroutinesOwned && hasGo) {
				continue
			}
			if rep.GoroutinesOwned && hasGo && usesProbe(f) {
				usesRt = true
			}
			if usesHook {
				astutil.AddNamedImport(p.Fset, f, simhookName, SimhookPath)
			}
			if usesLoad {
				astutil.AddNamedImport(p.Fset, f, simloadName, SimloadPath)
			}
			if usesRt {
				astutil.AddNamedImport(p.Fset, f, simrtName, SimrtPath)
			}
			// the rewrites may have left "time" or "maps" unused
			for _, ip := range []string{"time", "maps", "golang.org/x/exp/maps"} {
				if !astutil.UsesImport(f, ip) {
					astutil.DeleteImport(p.Fset, f, ip)
				}
			}
			var buf bytes.Buffer
			if err := format.Node(&buf, p.Fset, f); err != nil {
				return nil, err
			}
			if err := os.WriteFile(path, buf.Bytes(), 0o644); err != nil {
				return nil, err
			}
		}
	}
	redirect := map[string]string{"math/rand": SimrandPath, "math/rand/v2": Simrand2Path}
	if rep.GoroutinesOwned {
		redirect["sync"] = SimsyncPath
		redirect["sync/atomic"] = SimatomicPath
	}
	changed, err := RedirectImports(dir, redirect)
	if err != nil {
		return nil, err
	}
	rep.RandFiles = changed
	return rep, nil
}

func rewriteRange(t *ast.RangeStmt, n int, site string) ast.Stmt {
	sfx := strconv.Itoa(n)
	m := ast.NewIdent("moqsimM" + sfx)
	k := ast.NewIdent("moqsimK" + sfx)
	v := ast.NewIdent("moqsimV" + sfx)
	ok := ast.NewIdent("moqsimOK" + sfx)
	var head []ast.Stmt
	head = append(head,
		&ast.AssignStmt{Lhs: []ast.Expr{v, ok}, Tok: token.DEFINE, Rhs: []ast.Expr{&ast.IndexExpr{X: m, Index: k}}},
		&ast.IfStmt{Cond: &ast.UnaryExpr{Op: token.NOT, X: ok}, Body: &ast.BlockStmt{List: []ast.Stmt{&ast.BranchStmt{Tok: token.CONTINUE}}}},
		&ast.AssignStmt{Lhs: []ast.Expr{ast.NewIdent("_")}, Tok: token.ASSIGN, Rhs: []ast.Expr{v}},
	)
	tok := t.Tok
	if tok != token.DEFINE && tok != token.ASSIGN {
		tok = token.DEFINE
	}
	if id, isIdent := t.Key.(*ast.Ident); t.Key != nil && !(isIdent && id.Name == "_") {
		head = append(head, &ast.AssignStmt{Lhs: []ast.Expr{t.Key}, Tok: tok, Rhs: []ast.Expr{k}})
		if tok == token.DEFINE {
			head = append(head, &ast.AssignStmt{Lhs: []ast.Expr{ast.NewIdent("_")}, Tok: token.ASSIGN, Rhs: []ast.Expr{t.Key}})
		}
	}
	if id, isIdent := t.Value.(*ast.Ident); t.Value != nil && !(isIdent && id.Name == "_") {
		head = append(head, &ast.AssignStmt{Lhs: []ast.Expr{t.Value}, Tok: tok, Rhs: []ast.Expr{v}})
		if tok == token.DEFINE {
			head = append(head, &ast.AssignStmt{Lhs: []ast.Expr{ast.NewIdent("_")}, Tok: token.ASSIGN, Rhs: []ast.Expr{t.Value}})
		}
	}
	body := &ast.BlockStmt{List: append(head, t.Body.List...)}
	loop := &ast.RangeStmt{
		Key: ast.NewIdent("_"), Value: k, Tok: token.DEFINE,
		X: &ast.CallExpr{
			Fun:  &ast.SelectorExpr{X: ast.NewIdent(simhookName), Sel: ast.NewIdent("Keys")},
			Args: []ast.Expr{m, &ast.BasicLit{Kind: token.STRING, Value: strconv.Quote(site)}},
		},
		Body: body,
	}
	return &ast.BlockStmt{List: []ast.Stmt{
		&ast.AssignStmt{Lhs: []ast.Expr{m}, Tok: token.DEFINE, Rhs: []ast.Expr{t.X}},
		loop,
	}}
}

func usesProbe(f *ast.File) bool {
	found := false
	ast.Inspect(f, func(n ast.Node) bool {
		if sel, ok := n.(*ast.SelectorExpr); ok {
			if id, ok := sel.X.(*ast.Ident); ok && id.Name == simrtName && (sel.Sel.Name == "RAny" || sel.Sel.Name == "WAny") {
				found = true
			}
		}
		return !found
	})
	return found
}

// probeShared inserts, before every simple statement of f, a probe for each
// package-level variable of the module and each addressable field of a
// module-declared struct that the statement reads or writes.
func probeShared(p *packages.Package, f *ast.File, modPkgs map[*types.Package]bool) bool {
	info := p.TypesInfo
	any := false
	type acc struct {
		expr  ast.Expr
		label string
		write bool
	}
	var scan func(n ast.Node, write bool, out *[]acc)
	scan = func(n ast.Node, write bool, out *[]acc) {
		if n == nil {
			return
		}
		ast.Inspect(n, func(m ast.Node) bool {
			switch t := m.(type) {
			case *ast.FuncLit:
				return false
			case *ast.SelectorExpr:
				if sel, ok := info.Selections[t]; ok && sel.Kind() == types.FieldVal {
					if v, ok := sel.Obj().(*types.Var); ok && v.Pkg() != nil && modPkgs[v.Pkg()] {
						if tv, ok := info.Types[t]; ok && tv.Addressable() {
							*out = append(*out, acc{t, "field " + v.Name(), write && m == n})
						}
					}
				}
			case *ast.Ident:
				if v, ok := info.Uses[t].(*types.Var); ok && !v.IsField() && v.Pkg() != nil && modPkgs[v.Pkg()] && v.Parent() == v.Pkg().Scope() {
					*out = append(*out, acc{t, "var " + v.Pkg().Name() + "." + v.Name(), write && m == n})
				}
			}
			return true
		})
	}
	astutil.Apply(f, func(c *astutil.Cursor) bool {
		st, ok := c.Node().(ast.Stmt)
		if !ok || c.Index() < 0 {
			return true
		}
		var as []acc
		switch t := st.(type) {
		case *ast.AssignStmt:
			for _, r := range t.Rhs {
				scan(r, false, &as)
			}
			for _, l := range t.Lhs {
				scan(l, true, &as)
			}
		case *ast.ExprStmt:
			scan(t.X, false, &as)
		case *ast.IncDecStmt:
			scan(t.X, true, &as)
		case *ast.ReturnStmt:
			for _, r := range t.Results {
				scan(r, false, &as)
			}
		case *ast.IfStmt:
			scan(t.Cond, false, &as)
		case *ast.ForStmt:
			if t.Cond != nil {
				scan(t.Cond, false, &as)
			}
		case *ast.RangeStmt:
			scan(t.X, false, &as)
		case *ast.SwitchStmt:
			if t.Tag != nil {
				scan(t.Tag, false, &as)
			}
		case *ast.DeferStmt:
			for _, a := range t.Call.Args {
				scan(a, false, &as)
			}
		case *ast.GoStmt:
			for _, a := range t.Call.Args {
				scan(a, false, &as)
			}
		}
		seen := map[string]bool{}
		for _, a := range as {
			var buf bytes.Buffer
			format.Node(&buf, p.Fset, a.expr)
			key := buf.String()
			fn := "RAny"
			if a.write {
				fn = "WAny"
				key = "w:" + key
			}
			if seen[key] {
				continue
			}
			seen[key] = true
			any = true
			c.InsertBefore(&ast.ExprStmt{X: &ast.CallExpr{
				Fun: &ast.SelectorExpr{X: ast.NewIdent(simrtName), Sel: ast.NewIdent(fn)},
				Args: []ast.Expr{
					&ast.FuncLit{Type: &ast.FuncType{Params: &ast.FieldList{}, Results: &ast.FieldList{List: []*ast.Field{{Type: ast.NewIdent("any")}}}},
						Body: &ast.BlockStmt{List: []ast.Stmt{&ast.ReturnStmt{Results: []ast.Expr{&ast.UnaryExpr{Op: token.AND, X: a.expr}}}}}},
					&ast.BasicLit{Kind: token.STRING, Value: strconv.Quote(a.label)},
				},
			}})
		}
		return true
	}, nil)
	return any
}
