// Package simatomic stands in for sync/atomic in instrumented mocks: every
// operation is a sim point with sequentially consistent acquire+release
// happens-before edges on the address, then the plain memory operation (only
// one task ever runs, so the plain operation is atomic in the simulation).
package simatomic

import (
	"unsafe"

	"verif/sim/simrt"
)

func pt[T any](p *T)  { simrt.Atomic(unsafe.Pointer(p)) }                          // read-modify-write
func ld[T any](p *T)  { simrt.AtomicMode(unsafe.Pointer(p), simrt.AtomicAcquire) } // load (and a compare-and-swap until it succeeds)
func st[T any](p *T)  { simrt.AtomicMode(unsafe.Pointer(p), simrt.AtomicRelease) } // store
func pub[T any](p *T) { simrt.AtomicPublish(unsafe.Pointer(p)) }

func AddInt32(p *int32, d int32) int32                 { pt(p); *p += d; return *p }
func AddInt64(p *int64, d int64) int64                 { pt(p); *p += d; return *p }
func AddUint32(p *uint32, d uint32) uint32             { pt(p); *p += d; return *p }
func AddUint64(p *uint64, d uint64) uint64             { pt(p); *p += d; return *p }
func AddUintptr(p *uintptr, d uintptr) uintptr         { pt(p); *p += d; return *p }
func LoadInt32(p *int32) int32                         { ld(p); return *p }
func LoadInt64(p *int64) int64                         { ld(p); return *p }
func LoadUint32(p *uint32) uint32                      { ld(p); return *p }
func LoadUint64(p *uint64) uint64                      { ld(p); return *p }
func LoadUintptr(p *uintptr) uintptr                   { ld(p); return *p }
func LoadPointer(p *unsafe.Pointer) unsafe.Pointer     { ld(p); return *p }
func StoreInt32(p *int32, v int32)                     { st(p); *p = v }
func StoreInt64(p *int64, v int64)                     { st(p); *p = v }
func StoreUint32(p *uint32, v uint32)                  { st(p); *p = v }
func StoreUint64(p *uint64, v uint64)                  { st(p); *p = v }
func StoreUintptr(p *uintptr, v uintptr)               { st(p); *p = v }
func StorePointer(p *unsafe.Pointer, v unsafe.Pointer) { st(p); *p = v }
func SwapInt32(p *int32, v int32) int32                { pt(p); o := *p; *p = v; return o }
func SwapInt64(p *int64, v int64) int64                { pt(p); o := *p; *p = v; return o }
func SwapUint32(p *uint32, v uint32) uint32            { pt(p); o := *p; *p = v; return o }
func SwapUint64(p *uint64, v uint64) uint64            { pt(p); o := *p; *p = v; return o }
func CompareAndSwapInt32(p *int32, o, n int32) bool {
	ld(p)
	if *p == o {
		pub(p)
		*p = n
		return true
	}
	return false
}
func CompareAndSwapInt64(p *int64, o, n int64) bool {
	ld(p)
	if *p == o {
		pub(p)
		*p = n
		return true
	}
	return false
}
func CompareAndSwapUint32(p *uint32, o, n uint32) bool {
	ld(p)
	if *p == o {
		pub(p)
		*p = n
		return true
	}
	return false
}
func CompareAndSwapUint64(p *uint64, o, n uint64) bool {
	ld(p)
	if *p == o {
		pub(p)
		*p = n
		return true
	}
	return false
}
func CompareAndSwapPointer(p *unsafe.Pointer, o, n unsafe.Pointer) bool {
	ld(p)
	if *p == o {
		pub(p)
		*p = n
		return true
	}
	return false
}

type Int32 struct{ v int32 }

func (x *Int32) Load() int32                    { return LoadInt32(&x.v) }
func (x *Int32) Store(v int32)                  { StoreInt32(&x.v, v) }
func (x *Int32) Add(d int32) int32              { return AddInt32(&x.v, d) }
func (x *Int32) Swap(v int32) int32             { return SwapInt32(&x.v, v) }
func (x *Int32) CompareAndSwap(o, n int32) bool { return CompareAndSwapInt32(&x.v, o, n) }

type Int64 struct{ v int64 }

func (x *Int64) Load() int64                    { return LoadInt64(&x.v) }
func (x *Int64) Store(v int64)                  { StoreInt64(&x.v, v) }
func (x *Int64) Add(d int64) int64              { return AddInt64(&x.v, d) }
func (x *Int64) Swap(v int64) int64             { return SwapInt64(&x.v, v) }
func (x *Int64) CompareAndSwap(o, n int64) bool { return CompareAndSwapInt64(&x.v, o, n) }

type Uint32 struct{ v uint32 }

func (x *Uint32) Load() uint32                    { return LoadUint32(&x.v) }
func (x *Uint32) Store(v uint32)                  { StoreUint32(&x.v, v) }
func (x *Uint32) Add(d uint32) uint32             { return AddUint32(&x.v, d) }
func (x *Uint32) Swap(v uint32) uint32            { return SwapUint32(&x.v, v) }
func (x *Uint32) CompareAndSwap(o, n uint32) bool { return CompareAndSwapUint32(&x.v, o, n) }

type Uint64 struct{ v uint64 }

func (x *Uint64) Load() uint64                    { return LoadUint64(&x.v) }
func (x *Uint64) Store(v uint64)                  { StoreUint64(&x.v, v) }
func (x *Uint64) Add(d uint64) uint64             { return AddUint64(&x.v, d) }
func (x *Uint64) Swap(v uint64) uint64            { return SwapUint64(&x.v, v) }
func (x *Uint64) CompareAndSwap(o, n uint64) bool { return CompareAndSwapUint64(&x.v, o, n) }

type Bool struct{ v uint32 }

func (x *Bool) Load() bool                    { return LoadUint32(&x.v) != 0 }
func (x *Bool) Store(v bool)                  { StoreUint32(&x.v, b2u(v)) }
func (x *Bool) Swap(v bool) bool              { return SwapUint32(&x.v, b2u(v)) != 0 }
func (x *Bool) CompareAndSwap(o, n bool) bool { return CompareAndSwapUint32(&x.v, b2u(o), b2u(n)) }

func b2u(b bool) uint32 {
	if b {
		return 1
	}
	return 0
}

type Pointer[T any] struct{ p *T }

func (x *Pointer[T]) Load() *T     { ld(&x.p); return x.p }
func (x *Pointer[T]) Store(v *T)   { st(&x.p); x.p = v }
func (x *Pointer[T]) Swap(v *T) *T { pt(&x.p); o := x.p; x.p = v; return o }
func (x *Pointer[T]) CompareAndSwap(o, n *T) bool {
	ld(&x.p)
	if x.p == o {
		pub(&x.p)
		x.p = n
		return true
	}
	return false
}

type Value struct{ v any }

func (x *Value) Load() any      { ld(&x.v); return x.v }
func (x *Value) Store(v any)    { st(&x.v); x.v = v }
func (x *Value) Swap(v any) any { pt(&x.v); o := x.v; x.v = v; return o }
func (x *Value) CompareAndSwap(o, n any) bool {
	ld(&x.v)
	if x.v == o {
		pub(&x.v)
		x.v = n
		return true
	}
	return false
}

type Uintptr struct{ v uintptr }

func (x *Uintptr) Load() uintptr          { return LoadUintptr(&x.v) }
func (x *Uintptr) Store(v uintptr)        { StoreUintptr(&x.v, v) }
func (x *Uintptr) Add(d uintptr) uintptr  { return AddUintptr(&x.v, d) }
func (x *Uintptr) Swap(v uintptr) uintptr { pt(&x.v); o := x.v; x.v = v; return o }
func (x *Uintptr) CompareAndSwap(o, n uintptr) bool {
	ld(&x.v)
	if x.v == o {
		pub(&x.v)
		x.v = n
		return true
	}
	return false
}

// And/Or (Go 1.23): read-modify-write operations returning the old value.
func AndInt32(p *int32, m int32) int32         { pt(p); o := *p; *p &= m; return o }
func AndUint32(p *uint32, m uint32) uint32     { pt(p); o := *p; *p &= m; return o }
func AndInt64(p *int64, m int64) int64         { pt(p); o := *p; *p &= m; return o }
func AndUint64(p *uint64, m uint64) uint64     { pt(p); o := *p; *p &= m; return o }
func AndUintptr(p *uintptr, m uintptr) uintptr { pt(p); o := *p; *p &= m; return o }
func OrInt32(p *int32, m int32) int32          { pt(p); o := *p; *p |= m; return o }
func OrUint32(p *uint32, m uint32) uint32      { pt(p); o := *p; *p |= m; return o }
func OrInt64(p *int64, m int64) int64          { pt(p); o := *p; *p |= m; return o }
func OrUint64(p *uint64, m uint64) uint64      { pt(p); o := *p; *p |= m; return o }
func OrUintptr(p *uintptr, m uintptr) uintptr  { pt(p); o := *p; *p |= m; return o }

func (x *Int32) And(m int32) int32       { return AndInt32(&x.v, m) }
func (x *Int32) Or(m int32) int32        { return OrInt32(&x.v, m) }
func (x *Uint32) And(m uint32) uint32    { return AndUint32(&x.v, m) }
func (x *Uint32) Or(m uint32) uint32     { return OrUint32(&x.v, m) }
func (x *Int64) And(m int64) int64       { return AndInt64(&x.v, m) }
func (x *Int64) Or(m int64) int64        { return OrInt64(&x.v, m) }
func (x *Uint64) And(m uint64) uint64    { return AndUint64(&x.v, m) }
func (x *Uint64) Or(m uint64) uint64     { return OrUint64(&x.v, m) }
func (x *Uintptr) And(m uintptr) uintptr { return AndUintptr(&x.v, m) }
func (x *Uintptr) Or(m uintptr) uintptr  { return OrUintptr(&x.v, m) }
