// Package simrt is the deterministic scheduler under which compiled mocks run.
//
// Tasks are real goroutines but only one is ever runnable: every task parks at
// each "sim point" (lock request, unlock, probed memory access, harness
// event) with a pending request, and the single-threaded scheduler loop picks
// one enabled request, applies its effect to the modelled state (lock tables,
// vector clocks, access history) and releases exactly that task until its next
// sim point. Which task is released is the only scheduling decision and it is
// drawn from the run's tape, so one tape is one exactly repeatable execution.
//
// The package keeps no Go map in any path that influences a run: objects are
// identified by pointer only as lookup keys (never ordered, never printed) and
// are numbered in first-use order, which is itself schedule-determined.
package simrt

import (
	"fmt"
	"reflect"
	"runtime"
	"strings"
	"unsafe"

	"verif/sim/tape"
)

// Kind is the kind of a sim point.
type Kind uint8

// Sim point kinds.
const (
	KStart Kind = iota
	KLockAnnounce
	KLock
	KUnlock
	KRLock
	KRUnlock
	KTryLock
	KTryRLock
	KRead
	KWrite
	KPoint // harness event (op invoke/return, callback enter/exit)
	KGate  // stalled callback waiting for the others
	KSpawn
	KOnceEnter
	KOnceDone
	KWgAdd
	KWgWait
	KAtomic
	KJoin
	KDone
	KCondEnq    // Cond.Wait, first half: the caller joins the wait queue (before it releases L)
	KCondBlock  // Cond.Wait, second half: blocked until signalled
	KCondSignal // Cond.Signal (n == 0) or Cond.Broadcast (n == 1)
)

var kindNames = [...]string{"start", "lock-announce", "lock", "unlock", "rlock", "runlock", "trylock", "tryrlock",
	"read", "write", "point", "gate", "spawn", "once-enter", "once-done", "wg-add", "wg-wait", "atomic", "join", "done",
	"cond-enqueue", "cond-wait", "cond-signal"}

func (k Kind) String() string { return kindNames[k] }

// Event is one applied sim point, in global order.
type Event struct {
	Seq   uint64
	Task  int
	Kind  Kind
	Label string
}

func (e Event) String() string { return fmt.Sprintf("%d t%d %s %s", e.Seq, e.Task, e.Kind, e.Label) }

// Violation is something the simulator itself detected.
type Violation struct {
	Class  string // data-race, sync-misuse, deadlock, no-progress, blocked-callback-blocks-others, unsupported
	Detail string
	Seq    uint64
}

type request struct {
	kind   Kind
	obj    unsafe.Pointer
	label  string
	n      int // wg delta, gate budget
	reqSeq uint64
	result bool
}

// Task is a simulated goroutine.
type Task struct {
	ID      int
	Name    string
	wake    chan struct{}
	req     request
	parked  bool
	done    bool
	vc      vclock
	held    []heldLock
	Data    any // harness per-task state
	goid    uint64
	starved bool // released from a gate because nobody else could run
	// StarvedBlocked lists, when starved, the tasks that were blocked on locks.
	StarvedBlocked []string
}

type heldLock struct {
	l    *lockState
	read bool
}

type lockState struct {
	id       int
	label    string
	rw       bool
	writer   *Task
	readers  []*Task
	pending  []*Task // announced writers
	relW     vclock  // released by writers
	relR     vclock  // released by readers
	onceSt   int     // 0 new, 1 running, 2 done
	wgCount  int
	wgWaitVC vclock
	condQ    []*Task        // Cond: waiters in arrival order
	condWoke map[*Task]bool // Cond: waiters that have been signalled and not yet resumed
}

type locState struct {
	id     int
	label  string
	wTask  int // -1 none
	wClock uint64
	wSeq   uint64
	rClock []uint64 // per task, 0 = none
	rSeq   []uint64
}

// Strategy selects how scheduling choices are produced in generate mode.
type Strategy struct {
	Kind      int // 0 uniform, 1 run-until-block with preemption, 2 PCT
	PreemptPM int // per-mille for kind 1
	Depth     int // priority change points for kind 2
	Horizon   int // expected run length for kind 2
}

func (st Strategy) String() string {
	switch st.Kind {
	case 0:
		return "uniform"
	case 1:
		return fmt.Sprintf("preempt(%d/1000)", st.PreemptPM)
	default:
		return fmt.Sprintf("pct(d=%d)", st.Depth)
	}
}

// Sim is one simulated run.
type Sim struct {
	tp        *tape.Tape
	strat     Strategy
	tasks     []*Task
	cur       *Task
	seq       uint64
	back      chan struct{}
	locks     map[unsafe.Pointer]*lockState
	nlocks    int
	locs      map[unsafe.Pointer]*locState
	nlocs     int
	labels    map[unsafe.Pointer]string
	Events    []Event
	KeepLog   bool
	sigHash   uint64
	Viol      []Violation
	MaxEvents uint64
	// FairTail: once a replayed recording is used up, scheduling continues
	// round-robin (longest-waiting enabled task first) instead of always
	// staying with the current task
	FairTail  bool
	lastRan   map[int]uint64
	aborted   bool
	running   bool
	pctPrio   []int
	pctPoints []uint64
	Switches  int // context switches at points where the previous task was still enabled
	Contended int // lock requests that found the lock unavailable at request time
	Probes    map[string]int
	lastTask  int
	keep      []any
}

var cur *Sim

// Current returns the running simulation (nil outside one).
func Current() *Sim { return cur }

// New creates a simulation drawing from tp.
func New(tp *tape.Tape, st Strategy) *Sim {
	s := &Sim{
		tp: tp, strat: st,
		back:      make(chan struct{}),
		locks:     map[unsafe.Pointer]*lockState{},
		locs:      map[unsafe.Pointer]*locState{},
		labels:    map[unsafe.Pointer]string{},
		MaxEvents: 5000,
		sigHash:   14695981039346656037,
		Probes:    map[string]int{},
		lastTask:  -1,
	}
	return s
}

// Label attaches a human-readable name to an object address (lock or memory
// location) for traces.
func (s *Sim) Label(p unsafe.Pointer, name string) { s.labels[p] = name }

// Seq returns the global event sequence number of the last applied event.
func (s *Sim) Seq() uint64 { return s.seq }

// Signature returns the interleaving signature: FNV-1a over (task, kind,
// label) of every applied event.
func (s *Sim) Signature() uint64 { return s.sigHash }

// Tasks returns all tasks.
func (s *Sim) Tasks() []*Task { return s.tasks }

// Cur returns the running task.
func (s *Sim) Cur() *Task { return s.cur }

func (s *Sim) violate(class, detail string) {
	s.Viol = append(s.Viol, Violation{Class: class, Detail: detail, Seq: s.seq})
}

// Probe counts a rare condition having been reached.
func (s *Sim) Probe(name string) { s.Probes[name]++ }

// Go creates a task. Outside Run it registers an initial task; inside a
// running task it spawns a child (happens-before edge parent -> child).
func (s *Sim) Go(name string, fn func()) *Task {
	t := &Task{ID: len(s.tasks), Name: name, wake: make(chan struct{})}
	if s.cur != nil {
		t.vc = s.cur.vc.clone()
		s.cur.vc.tick(s.cur.ID)
	}
	t.vc.tick(t.ID)
	t.req = request{kind: KStart, label: name, reqSeq: s.seq}
	t.parked = true
	s.tasks = append(s.tasks, t)
	if s.strat.Kind == 2 {
		s.pctPrio = append(s.pctPrio, int(s.tp.Raw()%1000)+1000)
	}
	go func() {
		<-t.wake
		defer func() {
			t.done = true
			t.parked = false
			s.back <- struct{}{}
		}()
		if s.aborted {
			return
		}
		t.goid = Goid()
		fn()
	}()
	return t
}

// point parks the calling task with a pending request until the scheduler
// applies it.
func (s *Sim) point(r request) bool {
	t := s.cur
	if t == nil {
		panic("simrt: sim point reached outside a task")
	}
	if s.aborted {
		// the run is over (deadlock, event cap): a task that is still running -
		// a spin loop around an atomic, say - must not keep running for real
		runtime.Goexit()
	}
	r.reqSeq = s.seq
	t.req = r
	t.parked = true
	s.back <- struct{}{}
	<-t.wake
	if s.aborted {
		runtime.Goexit()
	}
	return t.req.result
}

func (s *Sim) lockOf(p unsafe.Pointer, rw bool) *lockState {
	l := s.locks[p]
	if l == nil {
		s.nlocks++
		lbl := s.labels[p]
		if lbl == "" {
			lbl = fmt.Sprintf("lock#%d", s.nlocks)
		}
		l = &lockState{id: s.nlocks, label: lbl, rw: rw}
		s.locks[p] = l
	}
	return l
}

func (s *Sim) locOf(p unsafe.Pointer, label string) *locState {
	l := s.locs[p]
	if l == nil {
		s.nlocs++
		lbl := s.labels[p]
		if lbl == "" {
			lbl = label
		}
		l = &locState{id: s.nlocs, label: lbl, wTask: -1}
		s.locs[p] = l
	}
	return l
}

func (s *Sim) enabledReq(t *Task) bool {
	r := &t.req
	switch r.kind {
	case KLock:
		l := s.lockOf(r.obj, true)
		return l.writer == nil && len(l.readers) == 0
	case KRLock:
		l := s.lockOf(r.obj, true)
		return l.writer == nil && len(l.pending) == 0
	case KOnceEnter:
		l := s.lockOf(r.obj, false)
		return l.onceSt != 1
	case KWgWait:
		l := s.lockOf(r.obj, false)
		return l.wgCount <= 0
	case KCondBlock:
		l := s.lockOf(r.obj, false)
		return l.condWoke[t]
	case KJoin:
		for _, o := range s.tasks {
			if o != t && !o.done && !(o.parked && o.req.kind == KJoin) {
				return false
			}
		}
		return true
	case KGate:
		if r.n >= 0 && s.seq-r.reqSeq >= uint64(r.n) {
			return true
		}
		return false
	}
	return true
}

// enabled returns the enabled tasks, current task first, then by id. Gate
// requests whose budget has not elapsed become enabled only when no other
// task can run ("released by starvation").
func (s *Sim) enabled() ([]*Task, bool) {
	var en []*Task
	if s.cur != nil && !s.cur.done && s.cur.parked && s.enabledReq(s.cur) {
		en = append(en, s.cur)
	}
	for _, t := range s.tasks {
		if t == s.cur || t.done || !t.parked {
			continue
		}
		if s.enabledReq(t) {
			en = append(en, t)
		}
	}
	if len(en) > 0 {
		return en, false
	}
	for _, t := range s.tasks {
		if !t.done && t.parked && t.req.kind == KGate {
			en = append(en, t)
		}
	}
	return en, len(en) > 0
}

func (s *Sim) choose(en []*Task) *Task {
	n := len(en)
	if n == 1 {
		if s.lastRan != nil {
			s.lastRan[en[0].ID] = s.seq + 1
		}
		return en[0]
	}
	idx := 0
	if s.FairTail && s.tp.Exhausted() {
		// beyond the recording: the enabled task that has waited longest
		for i, t := range en {
			if s.lastRan[t.ID] < s.lastRan[en[idx].ID] {
				idx = i
			}
		}
	} else if !s.tp.Replaying() {
		switch s.strat.Kind {
		case 0:
			idx = int(s.tp.Raw() % uint64(n))
		case 1:
			curEnabled := en[0] == s.cur
			if curEnabled && int(s.tp.Raw()%1000) >= s.strat.PreemptPM {
				idx = 0
			} else if curEnabled {
				idx = 1 + int(s.tp.Raw()%uint64(n-1))
			} else {
				idx = int(s.tp.Raw() % uint64(n))
			}
		default:
			for len(s.pctPoints) > 0 && s.seq >= s.pctPoints[0] {
				s.pctPoints = s.pctPoints[1:]
				if s.cur != nil {
					s.pctPrio[s.cur.ID] = len(s.pctPoints) // drop below every initial priority
				}
			}
			best := 0
			for i, t := range en {
				if s.pctPrio[t.ID] > s.pctPrio[en[best].ID] {
					best = i
				}
			}
			idx = best
		}
	}
	idx = s.tp.Force(n, idx)
	if s.lastRan == nil {
		s.lastRan = map[int]uint64{}
	}
	s.lastRan[en[idx].ID] = s.seq + 1
	return en[idx]
}

func (s *Sim) logEvent(t *Task, k Kind, label string) {
	s.seq++
	h := s.sigHash
	h ^= uint64(t.ID)
	h *= 1099511628211
	h ^= uint64(k)
	h *= 1099511628211
	for i := 0; i < len(label); i++ {
		h ^= uint64(label[i])
		h *= 1099511628211
	}
	s.sigHash = h
	if s.KeepLog {
		s.Events = append(s.Events, Event{Seq: s.seq, Task: t.ID, Kind: k, Label: label})
	}
}

// apply performs the effect of t's pending request.
func (s *Sim) apply(t *Task) {
	r := &t.req
	switch r.kind {
	case KStart, KPoint, KGate, KSpawn:
		s.logEvent(t, r.kind, r.label)
	case KLockAnnounce:
		l := s.lockOf(r.obj, true)
		if l.writer != nil || len(l.readers) > 0 {
			s.Contended++
		}
		if l.rw {
			l.pending = append(l.pending, t)
		}
		s.logEvent(t, r.kind, l.label)
	case KLock:
		l := s.lockOf(r.obj, true)
		l.pending = removeTask(l.pending, t)
		l.writer = t
		t.vc.join(l.relW)
		t.vc.join(l.relR)
		t.held = append(t.held, heldLock{l: l})
		s.logEvent(t, r.kind, l.label)
	case KTryLock:
		l := s.lockOf(r.obj, true)
		if l.writer == nil && len(l.readers) == 0 {
			l.writer = t
			t.vc.join(l.relW)
			t.vc.join(l.relR)
			t.held = append(t.held, heldLock{l: l})
			r.result = true
		} else {
			r.result = false
		}
		s.logEvent(t, r.kind, l.label)
	case KUnlock:
		l := s.lockOf(r.obj, true)
		if l.writer == nil {
			s.violate("sync-misuse", fmt.Sprintf("task %d: Unlock of unlocked %s", t.ID, l.label))
		} else {
			w := l.writer
			w.held = removeHeld(w.held, l, false)
			l.relW = t.vc.clone()
			t.vc.tick(t.ID)
			l.writer = nil
		}
		s.logEvent(t, r.kind, l.label)
	case KRLock:
		l := s.lockOf(r.obj, true)
		if len(l.readers) > 0 {
			s.Probe("reader-overlap")
		}
		l.readers = append(l.readers, t)
		t.vc.join(l.relW)
		t.held = append(t.held, heldLock{l: l, read: true})
		s.logEvent(t, r.kind, l.label)
	case KTryRLock:
		l := s.lockOf(r.obj, true)
		if l.writer == nil && len(l.pending) == 0 {
			l.readers = append(l.readers, t)
			t.vc.join(l.relW)
			t.held = append(t.held, heldLock{l: l, read: true})
			r.result = true
		} else {
			r.result = false
		}
		s.logEvent(t, r.kind, l.label)
	case KRUnlock:
		l := s.lockOf(r.obj, true)
		if len(l.readers) == 0 {
			s.violate("sync-misuse", fmt.Sprintf("task %d: RUnlock of %s with no reader", t.ID, l.label))
		} else {
			who := t
			if !hasTask(l.readers, t) {
				who = l.readers[0]
			}
			l.readers = removeTask(l.readers, who)
			who.held = removeHeld(who.held, l, true)
			l.relR.join(t.vc)
			t.vc.tick(t.ID)
		}
		s.logEvent(t, r.kind, l.label)
	case KRead:
		loc := s.locOf(r.obj, r.label)
		if loc.wTask >= 0 && loc.wTask != t.ID && loc.wClock > t.vc.get(loc.wTask) {
			s.violate("data-race", fmt.Sprintf("read of %s by task %d (event %d) races with write by task %d (event %d)",
				loc.label, t.ID, s.seq+1, loc.wTask, loc.wSeq))
		}
		for len(loc.rClock) <= t.ID {
			loc.rClock = append(loc.rClock, 0)
			loc.rSeq = append(loc.rSeq, 0)
		}
		loc.rClock[t.ID] = t.vc.get(t.ID)
		loc.rSeq[t.ID] = s.seq + 1
		s.logEvent(t, r.kind, loc.label)
	case KWrite:
		loc := s.locOf(r.obj, r.label)
		if loc.wTask >= 0 && loc.wTask != t.ID && loc.wClock > t.vc.get(loc.wTask) {
			s.violate("data-race", fmt.Sprintf("write of %s by task %d (event %d) races with write by task %d (event %d)",
				loc.label, t.ID, s.seq+1, loc.wTask, loc.wSeq))
		}
		for u, c := range loc.rClock {
			if u != t.ID && c > 0 && c > t.vc.get(u) {
				s.violate("data-race", fmt.Sprintf("write of %s by task %d (event %d) races with read by task %d (event %d)",
					loc.label, t.ID, s.seq+1, u, loc.rSeq[u]))
			}
		}
		loc.wTask = t.ID
		loc.wClock = t.vc.get(t.ID)
		loc.wSeq = s.seq + 1
		for i := range loc.rClock {
			loc.rClock[i] = 0
		}
		s.logEvent(t, r.kind, loc.label)
	case KOnceEnter:
		l := s.lockOf(r.obj, false)
		if l.onceSt == 0 {
			l.onceSt = 1
			r.result = true
		} else {
			t.vc.join(l.relW)
			r.result = false
		}
		s.logEvent(t, r.kind, l.label)
	case KOnceDone:
		l := s.lockOf(r.obj, false)
		l.onceSt = 2
		l.relW = t.vc.clone()
		t.vc.tick(t.ID)
		s.logEvent(t, r.kind, l.label)
	case KWgAdd:
		l := s.lockOf(r.obj, false)
		l.wgCount += r.n
		if l.wgCount < 0 {
			s.violate("sync-misuse", fmt.Sprintf("task %d: negative WaitGroup counter on %s", t.ID, l.label))
		}
		if r.n < 0 {
			l.relW.join(t.vc)
			t.vc.tick(t.ID)
		}
		s.logEvent(t, r.kind, l.label)
	case KWgWait:
		l := s.lockOf(r.obj, false)
		t.vc.join(l.relW)
		s.logEvent(t, r.kind, l.label)
	case KJoin:
		for _, o := range s.tasks {
			if o != t {
				t.vc.join(o.vc)
			}
		}
		s.logEvent(t, r.kind, r.label)
	case KCondEnq:
		l := s.lockOf(r.obj, false)
		l.condQ = append(l.condQ, t)
		s.logEvent(t, r.kind, l.label)
	case KCondBlock:
		l := s.lockOf(r.obj, false)
		delete(l.condWoke, t)
		t.vc.join(l.relW) // what the signaller did before signalling
		s.logEvent(t, r.kind, l.label)
	case KCondSignal:
		// Signal wakes the longest-waiting goroutine, Broadcast all of them (the
		// runtime's notify list is first in, first out)
		l := s.lockOf(r.obj, false)
		n := 1
		if r.n == 1 {
			n = len(l.condQ)
		}
		for ; n > 0 && len(l.condQ) > 0; n-- {
			if l.condWoke == nil {
				l.condWoke = map[*Task]bool{}
			}
			l.condWoke[l.condQ[0]] = true
			l.condQ = l.condQ[1:]
		}
		l.relW.join(t.vc)
		t.vc.tick(t.ID)
		s.logEvent(t, r.kind, l.label)
	case KAtomic:
		// an atomic operation on the location. Go's memory model orders a write
		// before the reads that observe it and nothing else: a load acquires, a
		// store publishes (and, observing nothing, replaces what was published),
		// a read-modify-write does both.
		l := s.lockOf(r.obj, false)
		switch r.n {
		case AtomicAcquire:
			t.vc.join(l.relW)
		case AtomicRelease:
			l.relW = t.vc.clone()
			t.vc.tick(t.ID)
		case AtomicReleaseJoin:
			l.relW.join(t.vc)
			t.vc.tick(t.ID)
		default:
			t.vc.join(l.relW)
			l.relW.join(t.vc)
			t.vc.tick(t.ID)
		}
		s.logEvent(t, r.kind, l.label)
	}
}

// Run drives the simulation until every task is done, a deadlock is found or
// the event cap is hit. It returns true when all tasks completed.
func (s *Sim) Run() bool {
	if cur != nil {
		panic("simrt: nested simulation")
	}
	cur = s
	s.running = true
	defer func() { cur = nil; s.running = false }()
	if s.strat.Kind == 2 {
		h := s.strat.Horizon
		if h <= 0 {
			h = 200
		}
		for i := 0; i < s.strat.Depth; i++ {
			s.pctPoints = append(s.pctPoints, s.tp.Raw()%uint64(h))
		}
		sortU64(s.pctPoints)
	}
	complete := true
	for {
		en, starved := s.enabled()
		if len(en) == 0 {
			var blocked []string
			for _, t := range s.tasks {
				if !t.done {
					blocked = append(blocked, s.describeBlocked(t))
				}
			}
			if len(blocked) > 0 {
				s.violate("deadlock", strings.Join(blocked, "; "))
				complete = false
			}
			break
		}
		if s.seq >= s.MaxEvents {
			s.violate("no-progress", fmt.Sprintf("event cap %d reached", s.MaxEvents))
			complete = false
			break
		}
		t := s.choose(en)
		if starved {
			t.starved = true
			t.StarvedBlocked = nil
			for _, o := range s.tasks {
				if o != t && !o.done && o.req.kind != KGate && o.req.kind != KJoin {
					t.StarvedBlocked = append(t.StarvedBlocked, s.describeBlocked(o))
				}
			}
			if len(t.StarvedBlocked) > 0 {
				s.violate("blocked-callback-blocks-others", fmt.Sprintf("while task %d is parked inside a callback: %s",
					t.ID, strings.Join(t.StarvedBlocked, "; ")))
			}
		}
		if s.lastTask >= 0 && s.lastTask != t.ID && len(en) > 1 && en[0].ID == s.lastTask {
			s.Switches++
		}
		s.lastTask = t.ID
		s.apply(t)
		s.cur = t
		t.parked = false
		t.wake <- struct{}{}
		<-s.back
	}
	if !complete {
		s.abort()
	}
	s.cur = nil
	return complete
}

func (s *Sim) describeBlocked(t *Task) string {
	r := t.req
	switch r.kind {
	case KLock, KRLock:
		l := s.lockOf(r.obj, true)
		holder := "nobody"
		if l.writer != nil {
			holder = fmt.Sprintf("task %d (write)", l.writer.ID)
		} else if len(l.readers) > 0 {
			var ids []string
			for _, rd := range l.readers {
				ids = append(ids, fmt.Sprint(rd.ID))
			}
			holder = "task " + strings.Join(ids, ",") + " (read)"
			if r.kind == KRLock {
				holder += " behind a waiting writer"
			}
		} else if len(l.pending) > 0 {
			holder = "a waiting writer"
		}
		return fmt.Sprintf("task %d waits for %s on %s held by %s", t.ID, r.kind, l.label, holder)
	case KGate:
		return fmt.Sprintf("task %d stalled in callback", t.ID)
	case KCondBlock:
		return fmt.Sprintf("task %d waits on condition variable %s that nobody signals", t.ID, s.lockOf(r.obj, false).label)
	}
	return fmt.Sprintf("task %d waits at %s %s", t.ID, r.kind, r.label)
}

// abort unwinds every parked task (runtime.Goexit at its sim point) so that
// no goroutine outlives the run.
func (s *Sim) abort() {
	s.aborted = true
	for _, t := range s.tasks {
		if t.done {
			continue
		}
		s.cur = t
		t.wake <- struct{}{}
		<-s.back
	}
}

// Aborted reports whether the run was aborted.
func (s *Sim) Aborted() bool { return s.aborted }

// ---- API used by the harness and by instrumented code ----

// Point is a harness event: a yield point that is always enabled.
func (s *Sim) Point(label string) uint64 {
	s.point(request{kind: KPoint, label: label})
	return s.seq
}

// Gate parks the calling task until budget foreign events have been applied
// or nobody else can run. budget<0 waits for starvation only.
func (s *Sim) Gate(label string, budget int) (starved bool, blocked []string) {
	t := s.cur
	t.starved = false
	s.point(request{kind: KGate, label: label, n: budget})
	return t.starved, t.StarvedBlocked
}

// Join parks the calling task until every other task is done and orders all
// their events before the caller's next ones.
func (s *Sim) Join() { s.point(request{kind: KJoin, label: "join"}) }

// Held returns the labels of the locks the task holds ("r:" prefix for read).
func (t *Task) Held() []string {
	var out []string
	for _, h := range t.held {
		if h.read {
			out = append(out, "r:"+h.l.label)
		} else {
			out = append(out, h.l.label)
		}
	}
	return out
}

// RealGoid returns the goroutine id the task runs on.
func (t *Task) RealGoid() uint64 { return t.goid }

// Done reports whether the task finished.
func (t *Task) Done() bool { return t.done }

// Lock etc. are called by simsync.
func Lock(p unsafe.Pointer, rw bool) {
	s := must()
	if s.aborted {
		return
	}
	s.lockOf(p, rw).rw = rw
	s.point(request{kind: KLockAnnounce, obj: p})
	s.point(request{kind: KLock, obj: p})
}

// Unlock releases a write lock.
func Unlock(p unsafe.Pointer) { s := must(); s.point(request{kind: KUnlock, obj: p}) }

// RLock acquires a read lock.
func RLock(p unsafe.Pointer) { s := must(); s.point(request{kind: KRLock, obj: p}) }

// RUnlock releases a read lock.
func RUnlock(p unsafe.Pointer) { s := must(); s.point(request{kind: KRUnlock, obj: p}) }

// TryLock tries to take the write lock.
func TryLock(p unsafe.Pointer) bool { s := must(); return s.point(request{kind: KTryLock, obj: p}) }

// TryRLock tries to take a read lock.
func TryRLock(p unsafe.Pointer) bool { s := must(); return s.point(request{kind: KTryRLock, obj: p}) }

// OnceEnter returns true when the caller must run the once function.
func OnceEnter(p unsafe.Pointer) bool { s := must(); return s.point(request{kind: KOnceEnter, obj: p}) }

// OnceDone marks the once as completed.
func OnceDone(p unsafe.Pointer) { s := must(); s.point(request{kind: KOnceDone, obj: p}) }

// WgAdd adjusts a WaitGroup counter.
func WgAdd(p unsafe.Pointer, n int) { s := must(); s.point(request{kind: KWgAdd, obj: p, n: n}) }

// WgWait waits for the counter to reach zero.
func WgWait(p unsafe.Pointer) { s := must(); s.point(request{kind: KWgWait, obj: p}) }

// Atomic is a sequentially consistent atomic access to p.
func Atomic(p unsafe.Pointer) { s := must(); s.point(request{kind: KAtomic, obj: p}) }

// Forget drops whatever the simulation knows about the synchronisation object
// at p: a new object has been allocated where an old one used to live.
func Forget(p unsafe.Pointer) {
	if s := cur; s != nil {
		delete(s.locks, p)
	}
}

// CondEnqueue, CondBlock and CondSignal are the sim points of sync.Cond (Wait
// is enqueue, release of L by the caller, block, re-acquisition of L).
func CondEnqueue(p unsafe.Pointer) { s := must(); s.point(request{kind: KCondEnq, obj: p}) }
func CondBlock(p unsafe.Pointer)   { s := must(); s.point(request{kind: KCondBlock, obj: p}) }
func CondSignal(p unsafe.Pointer, all bool) {
	s := must()
	n := 0
	if all {
		n = 1
	}
	s.point(request{kind: KCondSignal, obj: p, n: n})
}

// Modes of an atomic operation (see the KAtomic case).
const (
	AtomicBoth        = 0
	AtomicAcquire     = 1 // a load
	AtomicRelease     = 2 // a store
	AtomicReleaseJoin = 3 // a store into a multi-entry object (sync.Map, sync.Pool): earlier entries stay published
)

// AtomicMode is Atomic with an explicit mode.
func AtomicMode(p unsafe.Pointer, mode int) {
	s := must()
	s.point(request{kind: KAtomic, obj: p, n: mode})
}

// AtomicPublish adds the release half to the acquire-only atomic the running
// task has just performed on p (a compare-and-swap that turned out to
// succeed). It is not a scheduling point.
func AtomicPublish(p unsafe.Pointer) {
	s := must()
	t := s.cur
	if t == nil || s.aborted {
		return
	}
	l := s.lockOf(p, false)
	l.relW.join(t.vc)
	t.vc.tick(t.ID)
}

// R is a probed read of *p, inserted by the instrumenter before the access.
func R[T any](p *T, label string) {
	if unsafe.Sizeof(*p) == 0 {
		return // zero-size objects all share one address: not a location
	}
	s := must()
	s.point(request{kind: KRead, obj: unsafe.Pointer(p), label: label})
}

// W is a probed write of *p, inserted by the instrumenter before the access.
func W[T any](p *T, label string) {
	if unsafe.Sizeof(*p) == 0 {
		return
	}
	s := must()
	s.point(request{kind: KWrite, obj: unsafe.Pointer(p), label: label})
}

// AppendProbe is inserted before "x = append(x, ...)" on a probed location: if
// the append will write into spare capacity of the current backing array,
// that slot is a probed write (a snapshot handed out earlier may alias it).
func AppendProbe[T any](sl []T, label string) {
	s := must()
	if s.aborted {
		return
	}
	s.keep = append(s.keep, sl) // keep every backing array alive: addresses are never reused within a run
	var zero T
	if unsafe.Sizeof(zero) == 0 {
		return
	}
	if len(sl) < cap(sl) {
		slot := &sl[: len(sl)+1 : len(sl)+1][len(sl)]
		s.point(request{kind: KWrite, obj: unsafe.Pointer(slot), label: label + "[spare slot]"})
	}
}

// ElemsProbe is inserted before clear(x) / copy(x, ...) on a probed slice:
// every element of x is about to be overwritten in place.
func ElemsProbe[T any](sl []T, label string) {
	s := must()
	if s.aborted {
		return
	}
	s.keep = append(s.keep, sl)
	var zero T
	if unsafe.Sizeof(zero) == 0 {
		return
	}
	for i := range sl {
		s.point(request{kind: KWrite, obj: unsafe.Pointer(&sl[i]), label: label + "[i]"})
	}
}

// RAny / WAny are probes for rewritten generator code: the location is
// produced by a closure (evaluated under recover, so that a probe never
// introduces a nil dereference the statement itself would not have made).
func RAny(loc func() any, label string) { anyProbe(loc, label, KRead) }

// WAny is the write counterpart of RAny.
func WAny(loc func() any, label string) { anyProbe(loc, label, KWrite) }

func anyProbe(loc func() any, label string, k Kind) {
	s := cur
	if s == nil || s.aborted || s.cur == nil {
		return
	}
	var p unsafe.Pointer
	func() {
		defer func() { recover() }()
		v := reflect.ValueOf(loc())
		if v.Kind() == reflect.Ptr && !v.IsNil() && v.Type().Elem().Size() > 0 {
			p = v.UnsafePointer() // (zero-size objects share one address and are no locations)
		}
	}()
	if p == nil {
		return
	}
	s.point(request{kind: k, obj: p, label: label})
}

// ReadAddr is a probed read of an arbitrary address (the harness reading an
// element of a snapshot, as user code would).
func (s *Sim) ReadAddr(p unsafe.Pointer, label string) {
	s.point(request{kind: KRead, obj: p, label: label})
}

// Keep pins an object for the duration of the run.
func (s *Sim) Keep(x any) { s.keep = append(s.keep, x) }

// Go replaces a go statement in instrumented code.
func Go(fn func()) {
	s := must()
	if s.aborted {
		return
	}
	t := s.Go("spawned", fn)
	_ = t
	s.point(request{kind: KSpawn, label: "go"})
}

// Unsupported is called by stand-ins for synchronisation the simulator does
// not own; the run is reported as unsupported (exit 2), never as a verdict.
func Unsupported(what string) {
	s := must()
	s.violate("unsupported", what)
}

func must() *Sim {
	if cur == nil {
		panic("simrt: synchronisation used outside a simulation")
	}
	return cur
}

func removeTask(ts []*Task, t *Task) []*Task {
	for i, x := range ts {
		if x == t {
			return append(ts[:i:i], ts[i+1:]...)
		}
	}
	return ts
}

func hasTask(ts []*Task, t *Task) bool {
	for _, x := range ts {
		if x == t {
			return true
		}
	}
	return false
}

func removeHeld(hs []heldLock, l *lockState, read bool) []heldLock {
	for i := len(hs) - 1; i >= 0; i-- {
		if hs[i].l == l && hs[i].read == read {
			return append(hs[:i:i], hs[i+1:]...)
		}
	}
	return hs
}

func sortU64(a []uint64) {
	for i := 1; i < len(a); i++ {
		for j := i; j > 0 && a[j] < a[j-1]; j-- {
			a[j], a[j-1] = a[j-1], a[j]
		}
	}
}

// Goid returns the current goroutine's id.
func Goid() uint64 {
	var buf [64]byte
	n := runtime.Stack(buf[:], false)
	// "goroutine 123 ["
	var id uint64
	for i := len("goroutine "); i < n; i++ {
		c := buf[i]
		if c < '0' || c > '9' {
			break
		}
		id = id*10 + uint64(c-'0')
	}
	return id
}

// ---- vector clocks ----

type vclock []uint64

func (v vclock) get(i int) uint64 {
	if i < len(v) {
		return v[i]
	}
	return 0
}

func (v *vclock) tick(i int) {
	for len(*v) <= i {
		*v = append(*v, 0)
	}
	(*v)[i]++
}

func (v *vclock) join(o vclock) {
	for len(*v) < len(o) {
		*v = append(*v, 0)
	}
	for i, c := range o {
		if c > (*v)[i] {
			(*v)[i] = c
		}
	}
}

func (v vclock) clone() vclock { return append(vclock(nil), v...) }
