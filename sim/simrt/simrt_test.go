package simrt_test

import (
	"fmt"
	"sync"
	"testing"

	"verif/sim/simrt"
	"verif/sim/simrt/simsync"
	"verif/sim/tape"
)

type box struct {
	mu simsync.RWMutex
	v  []int
}

func (b *box) add(x int, locked bool) {
	if locked {
		b.mu.Lock()
	}
	simrt.R(&b.v, "v")
	tmp := append(b.v, x)
	simrt.W(&b.v, "v")
	b.v = tmp
	if locked {
		b.mu.Unlock()
	}
}

func (b *box) get(locked bool) []int {
	if locked {
		b.mu.RLock()
		defer b.mu.RUnlock()
	}
	simrt.R(&b.v, "v")
	return b.v
}

func run(seed uint64, st simrt.Strategy, locked bool) (*simrt.Sim, *box) {
	s := simrt.New(tape.New(seed), st)
	s.KeepLog = true
	b := &box{}
	for i := 0; i < 3; i++ {
		i := i
		s.Go(fmt.Sprint("t", i), func() {
			for j := 0; j < 3; j++ {
				b.add(i*10+j, locked)
				b.get(locked)
			}
		})
	}
	s.Run()
	return s, b
}

func TestLockedNoRace(t *testing.T) {
	sigs := map[uint64]bool{}
	for seed := uint64(0); seed < 300; seed++ {
		st := simrt.Strategy{Kind: int(seed % 3), PreemptPM: 200, Depth: 2, Horizon: 100}
		s, b := run(seed, st, true)
		if len(s.Viol) != 0 {
			t.Fatalf("seed %d: %v", seed, s.Viol)
		}
		if len(b.v) != 9 {
			t.Fatalf("seed %d: lost update: %v", seed, b.v)
		}
		sigs[s.Signature()] = true
		s2, _ := run(seed, st, true)
		if s2.Signature() != s.Signature() {
			t.Fatalf("seed %d: nondeterministic", seed)
		}
	}
	if len(sigs) < 100 {
		t.Fatalf("only %d distinct interleavings", len(sigs))
	}
}

func TestUnlockedRaces(t *testing.T) {
	races, lost := 0, 0
	for seed := uint64(0); seed < 200; seed++ {
		s, b := run(seed, simrt.Strategy{Kind: 0}, false)
		for _, v := range s.Viol {
			if v.Class == "data-race" {
				races++
				break
			}
		}
		if len(b.v) != 9 {
			lost++
		}
	}
	if races < 190 || lost < 50 {
		t.Fatalf("races=%d lost=%d", races, lost)
	}
}

func TestDeadlockAndReplay(t *testing.T) {
	// recursive read lock with a writer in between deadlocks only on some schedules
	found := -1
	var rec []int
	for seed := uint64(0); seed < 500 && found < 0; seed++ {
		tp := tape.New(seed)
		s := simrt.New(tp, simrt.Strategy{Kind: 0})
		var mu simsync.RWMutex
		s.Go("reader", func() {
			mu.RLock()
			s.Point("between")
			mu.RLock()
			mu.RUnlock()
			mu.RUnlock()
		})
		s.Go("writer", func() {
			mu.Lock()
			mu.Unlock()
		})
		ok := s.Run()
		if !ok {
			found = int(seed)
			rec = tp.Out
			if s.Viol[0].Class != "deadlock" {
				t.Fatalf("class %s", s.Viol[0].Class)
			}
		}
	}
	if found < 0 {
		t.Fatal("recursive RLock deadlock never found")
	}
	// replay
	s := simrt.New(tape.Replay(rec), simrt.Strategy{})
	var mu simsync.RWMutex
	s.Go("reader", func() {
		mu.RLock()
		s.Point("between")
		mu.RLock()
		mu.RUnlock()
		mu.RUnlock()
	})
	s.Go("writer", func() {
		mu.Lock()
		mu.Unlock()
	})
	if s.Run() {
		t.Fatal("replay did not deadlock")
	}
}

func TestGateStarvation(t *testing.T) {
	s := simrt.New(tape.New(1), simrt.Strategy{})
	var mu simsync.Mutex
	s.Go("holder", func() {
		mu.Lock()
		s.Gate("stall", -1)
		mu.Unlock()
	})
	s.Go("other", func() {
		mu.Lock()
		mu.Unlock()
	})
	if !s.Run() {
		t.Fatalf("did not complete: %v", s.Viol)
	}
	if len(s.Viol) != 1 || s.Viol[0].Class != "blocked-callback-blocks-others" {
		t.Fatalf("viol: %v", s.Viol)
	}
}

// TestFidelityAgainstRealSync drives the real sync.RWMutex/Mutex and the
// simulated ones with the same random single-goroutine sequences of
// non-blocking operations and compares every TryLock/TryRLock outcome.
func TestFidelityAgainstRealSync(t *testing.T) {
	for seed := uint64(1); seed <= 300; seed++ {
		rng := tape.NewSplitMix64(seed)
		var ops []int
		for i := 0; i < 40; i++ {
			ops = append(ops, int(rng.Next()%4))
		}
		// real
		var real sync.RWMutex
		var realOut []bool
		w, r := false, 0
		for _, op := range ops {
			switch op {
			case 0:
				ok := real.TryLock()
				realOut = append(realOut, ok)
				if ok {
					w = true
				}
			case 1:
				ok := real.TryRLock()
				realOut = append(realOut, ok)
				if ok {
					r++
				}
			case 2:
				if w {
					real.Unlock()
					w = false
				}
			case 3:
				if r > 0 {
					real.RUnlock()
					r--
				}
			}
		}
		// simulated
		var simOut []bool
		s := simrt.New(tape.New(seed), simrt.Strategy{})
		var sm simsync.RWMutex
		s.Go("t", func() {
			w, r := false, 0
			for _, op := range ops {
				switch op {
				case 0:
					ok := sm.TryLock()
					simOut = append(simOut, ok)
					if ok {
						w = true
					}
				case 1:
					ok := sm.TryRLock()
					simOut = append(simOut, ok)
					if ok {
						r++
					}
				case 2:
					if w {
						sm.Unlock()
						w = false
					}
				case 3:
					if r > 0 {
						sm.RUnlock()
						r--
					}
				}
			}
		})
		if !s.Run() || len(s.Viol) != 0 {
			t.Fatalf("seed %d: %v", seed, s.Viol)
		}
		if fmt.Sprint(realOut) != fmt.Sprint(simOut) {
			t.Fatalf("seed %d: real %v sim %v", seed, realOut, simOut)
		}
	}
}

// TestWriterPreference: a waiting writer blocks new readers (as sync.RWMutex
// documents), a second reader arriving before the writer does not block.
func TestWriterPreference(t *testing.T) {
	blocked, free := 0, 0
	for seed := uint64(0); seed < 400; seed++ {
		s := simrt.New(tape.New(seed), simrt.Strategy{})
		var mu simsync.RWMutex
		order := ""
		s.Go("r1", func() { mu.RLock(); s.Point("hold"); s.Point("hold"); mu.RUnlock() })
		s.Go("w", func() { mu.Lock(); order += "w"; mu.Unlock() })
		s.Go("r2", func() { mu.RLock(); order += "r"; mu.RUnlock() })
		if !s.Run() {
			t.Fatalf("seed %d: %v", seed, s.Viol)
		}
		if order == "wr" {
			blocked++
		} else {
			free++
		}
	}
	if blocked == 0 || free == 0 {
		t.Fatalf("writer preference not exercised both ways: blocked=%d free=%d", blocked, free)
	}
}
