package simrt_test

import (
	"fmt"
	"sync"
	"testing"

	"verif/sim/simrt"
	"verif/sim/simrt/simatomic"
	"verif/sim/simrt/simsync"
	"verif/sim/tape"
)

type box struct {
	mu simsync.RWMutex
	v  []int
}

func (b *box) add(x int, locked bool) {
	if locked {
		b.mu.Lock()
	}
	simrt.R(&b.v, "v")
	tmp := append(b.v, x)
	simrt.W(&b.v, "v")
	b.v = tmp
	if locked {
		b.mu.Unlock()
	}
}

func (b *box) get(locked bool) []int {
	if locked {
		b.mu.RLock()
		defer b.mu.RUnlock()
	}
	simrt.R(&b.v, "v")
	return b.v
}

func run(seed uint64, st simrt.Strategy, locked bool) (*simrt.Sim, *box) {
	s := simrt.New(tape.New(seed), st)
	s.KeepLog = true
	b := &box{}
	for i := 0; i < 3; i++ {
		i := i
		s.Go(fmt.Sprint("t", i), func() {
			for j := 0; j < 3; j++ {
				b.add(i*10+j, locked)
				b.get(locked)
			}
		})
	}
	s.Run()
	return s, b
}

func TestLockedNoRace(t *testing.T) {
	sigs := map[uint64]bool{}
	for seed := uint64(0); seed < 300; seed++ {
		st := simrt.Strategy{Kind: int(seed % 3), PreemptPM: 200, Depth: 2, Horizon: 100}
		s, b := run(seed, st, true)
		if len(s.Viol) != 0 {
			t.Fatalf("seed %d: %v", seed, s.Viol)
		}
		if len(b.v) != 9 {
			t.Fatalf("seed %d: lost update: %v", seed, b.v)
		}
		sigs[s.Signature()] = true
		s2, _ := run(seed, st, true)
		if s2.Signature() != s.Signature() {
			t.Fatalf("seed %d: nondeterministic", seed)
		}
	}
	if len(sigs) < 100 {
		t.Fatalf("only %d distinct interleavings", len(sigs))
	}
}

func TestUnlockedRaces(t *testing.T) {
	races, lost := 0, 0
	for seed := uint64(0); seed < 200; seed++ {
		s, b := run(seed, simrt.Strategy{Kind: 0}, false)
		for _, v := range s.Viol {
			if v.Class == "data-race" {
				races++
				break
			}
		}
		if len(b.v) != 9 {
			lost++
		}
	}
	if races < 190 || lost < 50 {
		t.Fatalf("races=%d lost=%d", races, lost)
	}
}

func TestDeadlockAndReplay(t *testing.T) {
	// recursive read lock with a writer in between deadlocks only on some schedules
	found := -1
	var rec []int
	for seed := uint64(0); seed < 500 && found < 0; seed++ {
		tp := tape.New(seed)
		s := simrt.New(tp, simrt.Strategy{Kind: 0})
		var mu simsync.RWMutex
		s.Go("reader", func() {
			mu.RLock()
			s.Point("between")
			mu.RLock()
			mu.RUnlock()
			mu.RUnlock()
		})
		s.Go("writer", func() {
			mu.Lock()
			mu.Unlock()
		})
		ok := s.Run()
		if !ok {
			found = int(seed)
			rec = tp.Out
			if s.Viol[0].Class != "deadlock" {
				t.Fatalf("class %s", s.Viol[0].Class)
			}
		}
	}
	if found < 0 {
		t.Fatal("recursive RLock deadlock never found")
	}
	// replay
	s := simrt.New(tape.Replay(rec), simrt.Strategy{})
	var mu simsync.RWMutex
	s.Go("reader", func() {
		mu.RLock()
		s.Point("between")
		mu.RLock()
		mu.RUnlock()
		mu.RUnlock()
	})
	s.Go("writer", func() {
		mu.Lock()
		mu.Unlock()
	})
	if s.Run() {
		t.Fatal("replay did not deadlock")
	}
}

func TestGateStarvation(t *testing.T) {
	s := simrt.New(tape.New(1), simrt.Strategy{})
	var mu simsync.Mutex
	s.Go("holder", func() {
		mu.Lock()
		s.Gate("stall", -1)
		mu.Unlock()
	})
	s.Go("other", func() {
		mu.Lock()
		mu.Unlock()
	})
	if !s.Run() {
		t.Fatalf("did not complete: %v", s.Viol)
	}
	if len(s.Viol) != 1 || s.Viol[0].Class != "blocked-callback-blocks-others" {
		t.Fatalf("viol: %v", s.Viol)
	}
}

// TestFidelityAgainstRealSync drives the real sync.RWMutex/Mutex and the
// simulated ones with the same random single-goroutine sequences of
// non-blocking operations and compares every TryLock/TryRLock outcome.
func TestFidelityAgainstRealSync(t *testing.T) {
	for seed := uint64(1); seed <= 300; seed++ {
		rng := tape.NewSplitMix64(seed)
		var ops []int
		for i := 0; i < 40; i++ {
			ops = append(ops, int(rng.Next()%4))
		}
		// real
		var real sync.RWMutex
		var realOut []bool
		w, r := false, 0
		for _, op := range ops {
			switch op {
			case 0:
				ok := real.TryLock()
				realOut = append(realOut, ok)
				if ok {
					w = true
				}
			case 1:
				ok := real.TryRLock()
				realOut = append(realOut, ok)
				if ok {
					r++
				}
			case 2:
				if w {
					real.Unlock()
					w = false
				}
			case 3:
				if r > 0 {
					real.RUnlock()
					r--
				}
			}
		}
		// simulated
		var simOut []bool
		s := simrt.New(tape.New(seed), simrt.Strategy{})
		var sm simsync.RWMutex
		s.Go("t", func() {
			w, r := false, 0
			for _, op := range ops {
				switch op {
				case 0:
					ok := sm.TryLock()
					simOut = append(simOut, ok)
					if ok {
						w = true
					}
				case 1:
					ok := sm.TryRLock()
					simOut = append(simOut, ok)
					if ok {
						r++
					}
				case 2:
					if w {
						sm.Unlock()
						w = false
					}
				case 3:
					if r > 0 {
						sm.RUnlock()
						r--
					}
				}
			}
		})
		if !s.Run() || len(s.Viol) != 0 {
			t.Fatalf("seed %d: %v", seed, s.Viol)
		}
		if fmt.Sprint(realOut) != fmt.Sprint(simOut) {
			t.Fatalf("seed %d: real %v sim %v", seed, realOut, simOut)
		}
	}
}

// TestWriterPreference: a waiting writer blocks new readers (as sync.RWMutex
// documents), a second reader arriving before the writer does not block.
func TestWriterPreference(t *testing.T) {
	blocked, free := 0, 0
	for seed := uint64(0); seed < 400; seed++ {
		s := simrt.New(tape.New(seed), simrt.Strategy{})
		var mu simsync.RWMutex
		order := ""
		s.Go("r1", func() { mu.RLock(); s.Point("hold"); s.Point("hold"); mu.RUnlock() })
		s.Go("w", func() { mu.Lock(); order += "w"; mu.Unlock() })
		s.Go("r2", func() { mu.RLock(); order += "r"; mu.RUnlock() })
		if !s.Run() {
			t.Fatalf("seed %d: %v", seed, s.Viol)
		}
		if order == "wr" {
			blocked++
		} else {
			free++
		}
	}
	if blocked == 0 || free == 0 {
		t.Fatalf("writer preference not exercised both ways: blocked=%d free=%d", blocked, free)
	}
}

// TestAtomicModes: a store orders what came before it ahead of the loads that
// observe it (message passing is race free); a load publishes nothing, so a
// plain read before a load still races with a plain write after a store.
func TestAtomicModes(t *testing.T) {
	for seed := uint64(0); seed < 200; seed++ {
		// message passing
		s := simrt.New(tape.New(seed), simrt.Strategy{})
		var data, flag int32
		s.Go("producer", func() {
			simrt.W(&data, "data")
			data = 1
			simatomic.StoreInt32(&flag, 1)
		})
		s.Go("consumer", func() {
			if simatomic.LoadInt32(&flag) == 1 {
				simrt.R(&data, "data")
				_ = data
			}
		})
		if !s.Run() || len(s.Viol) != 0 {
			t.Fatalf("seed %d: message passing flagged: %v", seed, s.Viol)
		}
		// read, then load || store, then write
		s = simrt.New(tape.New(seed), simrt.Strategy{})
		var d2, f2 int32
		s.Go("reader", func() {
			simrt.R(&d2, "d2")
			_ = d2
			simatomic.LoadInt32(&f2)
		})
		s.Go("writer", func() {
			simatomic.StoreInt32(&f2, 1)
			simrt.W(&d2, "d2")
			d2 = 1
		})
		s.Run()
		race := false
		for _, v := range s.Viol {
			if v.Class == "data-race" {
				race = true
			}
		}
		if !race {
			t.Fatalf("seed %d: read-before-load / write-after-store race not flagged", seed)
		}
		// a failed compare-and-swap publishes nothing, a successful one does
		s = simrt.New(tape.New(seed), simrt.Strategy{})
		var d3, f3 int32
		s.Go("a", func() {
			simrt.W(&d3, "d3")
			d3 = 1
			simatomic.CompareAndSwapInt32(&f3, 0, 1)
		})
		s.Go("b", func() {
			if simatomic.LoadInt32(&f3) == 1 {
				simrt.R(&d3, "d3")
				_ = d3
			}
		})
		if !s.Run() || len(s.Viol) != 0 {
			t.Fatalf("seed %d: publication by compare-and-swap flagged: %v", seed, s.Viol)
		}
	}
}

// TestSpinIsCutOff: a task spinning around an atomic is stopped at the event
// cap and does not keep running once the run is over; deferred sim points of
// unwinding tasks do not hang either.
func TestSpinIsCutOff(t *testing.T) {
	s := simrt.New(tape.New(3), simrt.Strategy{})
	s.MaxEvents = 500
	var x int32
	var mu simsync.Mutex
	spins := 0
	s.Go("spinner", func() {
		mu.Lock()
		defer mu.Unlock()
		defer func() { mu.Unlock(); mu.Lock() }()
		for !simatomic.CompareAndSwapInt32(&x, 1, 2) {
			spins++
		}
	})
	s.Go("waiter", func() {
		mu.Lock()
		defer mu.Unlock()
	})
	if s.Run() {
		t.Fatal("run completed")
	}
	if len(s.Viol) == 0 || s.Viol[0].Class != "no-progress" {
		t.Fatalf("viol: %v", s.Viol)
	}
	n := spins
	for i := 0; i < 1000000; i++ {
		_ = i
	}
	if spins != n || spins > 600 {
		t.Fatalf("spinner still running: %d -> %d", n, spins)
	}
}

// TestFairTailLetsSpinLocksFinish: a correct spin lock that a priority
// schedule starves finishes once the recording is used up and scheduling turns
// fair; a task spinning on something nobody will ever change still does not.
func TestFairTailLetsSpinLocksFinish(t *testing.T) {
	body := func(s *simrt.Sim, lock *int32, n *int) func() {
		return func() {
			for k := 0; k < 2; k++ {
				for !simatomic.CompareAndSwapInt32(lock, 0, 1) {
				}
				*n++
				simatomic.StoreInt32(lock, 0)
			}
		}
	}
	for seed := uint64(0); seed < 200; seed++ {
		// first run: PCT with a small cap
		tp := tape.New(seed)
		s := simrt.New(tp, simrt.Strategy{Kind: 2, Depth: 2, Horizon: 50})
		s.MaxEvents = 300
		var lock int32
		n := 0
		s.Go("a", body(s, &lock, &n))
		s.Go("b", body(s, &lock, &n))
		if s.Run() {
			continue
		}
		// extension: same choices, fair tail
		s2 := simrt.New(tape.Replay(append([]int(nil), tp.Out...)), simrt.Strategy{Kind: 2, Depth: 2, Horizon: 50})
		s2.MaxEvents = 6000
		s2.FairTail = true
		var lock2 int32
		n2 := 0
		s2.Go("a", body(s2, &lock2, &n2))
		s2.Go("b", body(s2, &lock2, &n2))
		if !s2.Run() || n2 != 4 {
			t.Fatalf("seed %d: spin lock did not finish under the fair tail: %v n=%d", seed, s2.Viol, n2)
		}
	}
}

// TestCond: a condition variable hands over under every schedule; waiting for
// a condition only the waiter itself could make true is a deadlock.
func TestCond(t *testing.T) {
	for seed := uint64(0); seed < 300; seed++ {
		s := simrt.New(tape.New(seed), simrt.Strategy{Kind: int(seed % 3), PreemptPM: 300, Depth: 2, Horizon: 40})
		var mu simsync.Mutex
		cond := simsync.NewCond(&mu)
		ready, data, got := false, 0, 0
		s.Go("consumer", func() {
			mu.Lock()
			for !ready {
				cond.Wait()
			}
			simrt.R(&data, "data")
			got = data
			mu.Unlock()
		})
		s.Go("producer", func() {
			simrt.W(&data, "data")
			data = 42
			mu.Lock()
			ready = true
			mu.Unlock()
			cond.Signal()
		})
		if !s.Run() || len(s.Viol) != 0 || got != 42 {
			t.Fatalf("seed %d: %v got=%d", seed, s.Viol, got)
		}
	}
	s := simrt.New(tape.New(1), simrt.Strategy{})
	var mu simsync.Mutex
	cond := simsync.NewCond(&mu)
	running := 1
	s.Go("self", func() {
		mu.Lock()
		for running > 0 {
			cond.Wait() // only this task would ever decrement running
		}
		mu.Unlock()
	})
	if s.Run() || len(s.Viol) == 0 || s.Viol[0].Class != "deadlock" {
		t.Fatalf("self-wait not reported as deadlock: %v", s.Viol)
	}
}
