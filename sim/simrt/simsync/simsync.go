// Package simsync is an API-identical stand-in for the parts of package sync a
// generated mock (or a plausible refactor of one) uses. Every operation is a
// sim point of the running simulation; blocking is decided by the scheduler's
// model of the lock, never by the Go runtime.
package simsync

import (
	"unsafe"

	"verif/sim/simrt"
)

// Locker is sync.Locker.
type Locker interface {
	Lock()
	Unlock()
}

// fresh marks first use of the object at p whose generation byte is g: the
// simulator keys its state by address, and a zero byte at an address it
// already knows means a new object now lives there (a per-call local, say).
func fresh(p unsafe.Pointer, g *uint8) {
	if *g == 0 {
		simrt.Forget(p)
		*g = 1
	}
}

// Mutex stands in for sync.Mutex. The zero value is an unlocked mutex.
type Mutex struct{ gen uint8 }

func (m *Mutex) Lock()   { fresh(unsafe.Pointer(m), &m.gen); simrt.Lock(unsafe.Pointer(m), false) }
func (m *Mutex) Unlock() { simrt.Unlock(unsafe.Pointer(m)) }
func (m *Mutex) TryLock() bool {
	fresh(unsafe.Pointer(m), &m.gen)
	return simrt.TryLock(unsafe.Pointer(m))
}

// RWMutex stands in for sync.RWMutex, including writer preference: once a
// writer has called Lock and is waiting, new readers block.
type RWMutex struct{ gen uint8 }

func (m *RWMutex) Lock()    { fresh(unsafe.Pointer(m), &m.gen); simrt.Lock(unsafe.Pointer(m), true) }
func (m *RWMutex) Unlock()  { simrt.Unlock(unsafe.Pointer(m)) }
func (m *RWMutex) RLock()   { fresh(unsafe.Pointer(m), &m.gen); simrt.RLock(unsafe.Pointer(m)) }
func (m *RWMutex) RUnlock() { simrt.RUnlock(unsafe.Pointer(m)) }
func (m *RWMutex) TryLock() bool {
	fresh(unsafe.Pointer(m), &m.gen)
	return simrt.TryLock(unsafe.Pointer(m))
}
func (m *RWMutex) TryRLock() bool {
	fresh(unsafe.Pointer(m), &m.gen)
	return simrt.TryRLock(unsafe.Pointer(m))
}

// RLocker returns a Locker whose Lock/Unlock are RLock/RUnlock.
func (m *RWMutex) RLocker() Locker { return (*rlocker)(m) }

type rlocker RWMutex

func (r *rlocker) Lock()   { (*RWMutex)(r).RLock() }
func (r *rlocker) Unlock() { (*RWMutex)(r).RUnlock() }

// Once stands in for sync.Once. Completion is remembered in the value itself,
// so a package-level Once stays done across simulations of one process, as
// the real one does.
type Once struct {
	done bool
	gen  uint8
}

// Do calls f if and only if Do is being called for the first time.
func (o *Once) Do(f func()) {
	if !o.done {
		fresh(unsafe.Pointer(o), &o.gen)
	}
	if o.done {
		// the fast path is an atomic load of the done flag: it acquires what the
		// first caller published and publishes nothing itself
		simrt.AtomicMode(unsafe.Pointer(o), simrt.AtomicAcquire)
		return
	}
	if simrt.OnceEnter(unsafe.Pointer(o)) {
		defer func() {
			// publish first (the release edge), then let late callers take the fast path
			simrt.OnceDone(unsafe.Pointer(o))
			o.done = true
		}()
		f()
	}
}

// WaitGroup stands in for sync.WaitGroup.
type WaitGroup struct{ gen uint8 }

func (w *WaitGroup) Add(n int) { fresh(unsafe.Pointer(w), &w.gen); simrt.WgAdd(unsafe.Pointer(w), n) }
func (w *WaitGroup) Done()     { simrt.WgAdd(unsafe.Pointer(w), -1) }
func (w *WaitGroup) Wait()     { simrt.WgWait(unsafe.Pointer(w)) }

// Go runs f in a new simulated task, counted by the group.
func (w *WaitGroup) Go(f func()) {
	w.Add(1)
	simrt.Go(func() {
		defer w.Done()
		f()
	})
}

// Cond stands in for sync.Cond: Wait joins the queue, releases L, blocks until
// a Signal or Broadcast picks it (first in, first out, as the runtime does) and
// re-acquires L. There are no spurious wake-ups.
type Cond struct {
	L   Locker
	gen uint8
}

func NewCond(l Locker) *Cond { return &Cond{L: l} }

func (c *Cond) Wait() {
	fresh(unsafe.Pointer(&c.gen), &c.gen)
	simrt.CondEnqueue(unsafe.Pointer(&c.gen))
	c.L.Unlock()
	simrt.CondBlock(unsafe.Pointer(&c.gen))
	c.L.Lock()
}

func (c *Cond) Signal() {
	fresh(unsafe.Pointer(&c.gen), &c.gen)
	simrt.CondSignal(unsafe.Pointer(&c.gen), false)
}
func (c *Cond) Broadcast() {
	fresh(unsafe.Pointer(&c.gen), &c.gen)
	simrt.CondSignal(unsafe.Pointer(&c.gen), true)
}

// Pool stands in for sync.Pool: a LIFO of returned objects (the real pool may
// also drop objects at any time; reuse is the interesting behaviour).
type Pool struct {
	New   func() any
	items []any
	_     [1]byte
}

func (p *Pool) Get() any {
	simrt.AtomicMode(unsafe.Pointer(p), simrt.AtomicAcquire)
	if n := len(p.items); n > 0 {
		x := p.items[n-1]
		p.items = p.items[:n-1]
		return x
	}
	if p.New != nil {
		return p.New()
	}
	return nil
}

func (p *Pool) Put(x any) {
	simrt.AtomicMode(unsafe.Pointer(p), simrt.AtomicReleaseJoin)
	p.items = append(p.items, x)
}

// OnceFunc, OnceValue and OnceValues mirror the sync helpers.
func OnceFunc(f func()) func() {
	var o Once
	return func() { o.Do(f) }
}

func OnceValue[T any](f func() T) func() T {
	var o Once
	var v T
	return func() T { o.Do(func() { v = f() }); return v }
}

func OnceValues[T1, T2 any](f func() (T1, T2)) func() (T1, T2) {
	var o Once
	var a T1
	var b T2
	return func() (T1, T2) { o.Do(func() { a, b = f() }); return a, b }
}

// Map stands in for sync.Map: every operation is one sim point; Range visits
// the entries in insertion order (one of the orders the real map may use).
type Map struct {
	keys []any
	vals map[any]any
	_    [1]byte
}

func (m *Map) pt() { m.op(simrt.AtomicBoth) }

// op is one sim point on the map: reads acquire what writes published (the
// edges are kept per map, not per key: never fewer than the real ones).
func (m *Map) op(mode int) {
	simrt.AtomicMode(unsafe.Pointer(m), mode)
	if m.vals == nil {
		m.vals = map[any]any{}
	}
}

func (m *Map) Load(key any) (any, bool) {
	m.op(simrt.AtomicAcquire)
	v, ok := m.vals[key]
	return v, ok
}

func (m *Map) Store(key, value any) {
	m.op(simrt.AtomicReleaseJoin)
	if _, ok := m.vals[key]; !ok {
		m.keys = append(m.keys, key)
	}
	m.vals[key] = value
}

func (m *Map) LoadOrStore(key, value any) (any, bool) {
	m.pt()
	if v, ok := m.vals[key]; ok {
		return v, true
	}
	m.keys = append(m.keys, key)
	m.vals[key] = value
	return value, false
}

func (m *Map) del(key any) {
	delete(m.vals, key)
	for i, k := range m.keys {
		if k == key {
			m.keys = append(m.keys[:i:i], m.keys[i+1:]...)
			return
		}
	}
}

func (m *Map) LoadAndDelete(key any) (any, bool) {
	m.pt()
	v, ok := m.vals[key]
	if ok {
		m.del(key)
	}
	return v, ok
}

func (m *Map) Delete(key any) { m.op(simrt.AtomicReleaseJoin); m.del(key) }

func (m *Map) Swap(key, value any) (any, bool) {
	m.pt()
	old, ok := m.vals[key]
	if !ok {
		m.keys = append(m.keys, key)
	}
	m.vals[key] = value
	return old, ok
}

func (m *Map) CompareAndSwap(key, old, new any) bool {
	m.pt()
	if v, ok := m.vals[key]; ok && v == old {
		m.vals[key] = new
		return true
	}
	return false
}

func (m *Map) CompareAndDelete(key, old any) bool {
	m.pt()
	if v, ok := m.vals[key]; ok && v == old {
		m.del(key)
		return true
	}
	return false
}

func (m *Map) Range(f func(key, value any) bool) {
	m.op(simrt.AtomicAcquire)
	keys := append([]any(nil), m.keys...)
	for _, k := range keys {
		v, ok := m.vals[k]
		if !ok {
			continue
		}
		if !f(k, v) {
			return
		}
	}
}

func (m *Map) Clear() { m.op(simrt.AtomicReleaseJoin); m.keys, m.vals = nil, map[any]any{} }
