package corpus

import (
	"fmt"
	"sort"
	"strings"

	"verif/sim/tape"
)

// ModuleB is the import path of the engine B scratch module.
const ModuleB = "gcorp"

// Universe B: packages built to make import/variable bookkeeping contend.
// Many share a package name at different path depths, some have names that
// differ from their last path element, some are named like the alias moq
// would generate for another one. (Pairs of same-named packages whose paths
// sanitise to the same string, and user packages that share their package
// name with a standard package the mock imports later, make moq recurse
// forever - DESIGN.md section 8 - and are left out.)
var universeB = map[string]string{
	"u/a/foo/foo.go":       "package foo\n\ntype A struct{ N int }\n\ntype Opt func(*A)\n",
	"u/b/foo/foo.go":       "package foo\n\ntype B struct{ S string }\n",
	"u/c/b/foo/foo.go":     "package foo\n\ntype C struct{ F float64 }\n",
	"u/afoo/afoo.go":       "package afoo\n\ntype X struct{ V int }\n",
	"u/bfoo/bfoo.go":       "package bfoo\n\ntype Y struct{ V int }\n",
	"u/d/bar-go/bar.go":    "package bar\n\ntype D struct{ V int }\n",
	"u/e/bar/bar.go":       "package bar\n\ntype E struct{ V int }\n",
	"u/x/v2/thing.go":      "package thing\n\ntype T struct{ V int }\n",
	"u/str/str.go":         "package strings\n\ntype Builder struct{ V int }\n",
	"u/one/two/baz/baz.go": "package baz\n\ntype P struct{ V int }\n",
	"u/one/baz/baz.go":     "package baz\n\ntype Q struct{ V int }\n",
	"u/two/baz/baz.go":     "package baz\n\ntype R struct{ V int }\n",
	"u/onebaz/onebaz.go":   "package onebaz\n\ntype S struct{ V int }\n",
	"u/m-n/mn.go":          "package mn\n\ntype M struct{ V int }\n",
	"u/m_n/mn.go":          "package mn2\n\ntype M struct{ V int }\n",
	// a package named like the name moq gives a parameter that collides with
	// package chain: renaming the parameter out of one collision walks it into
	// the next (used by the "rename chain" method only)
	"u/k/chain/chain.go": "package chain\n\ntype K struct{ V int }\n",
	// two packages of one name whose paths differ only near the root, below long
	// directory names: the alias moq has to invent repeats most of the path
	// (used by the "long alias" methods only; no source file gives them an alias)
	"u/l1/observabilityinstrumentation/telemetrycollectors/probe/probe.go": "package probe\n\ntype L1 struct{ V int }\n",
	"u/l2/observabilityinstrumentation/telemetrycollectors/probe/probe.go": "package probe\n\ntype L2 struct{ V int }\n",
	"u/k/chainmp/chainmp.go": "package chainMoqParam\n\ntype Z struct{ V int }\n",
}

type btype struct{ alias, path, typ string }

// package name behind each alias of bTypes
var bPkgName = map[string]string{"afoopkg": "foo", "bfoopkg": "foo", "cfoopkg": "foo", "afoo": "afoo", "bfoo": "bfoo", "dbar": "bar", "ebar": "bar",
	"thing": "thing", "baz3": "baz", "baz2": "baz", "baz1": "baz", "onebaz": "onebaz", "mn": "mn", "mn2": "mn2",
	"context": "context", "io": "io", "strings": "strings", "http": "http", "template": "template", "htmpl": "template", "time": "time"}

// the pool of imported types; alias is the name the source file imports it under
var bTypes = []btype{
	{"afoopkg", "u/a/foo", "A"}, {"afoopkg", "u/a/foo", "Opt"}, {"bfoopkg", "u/b/foo", "B"}, {"cfoopkg", "u/c/b/foo", "C"},
	{"afoo", "u/afoo", "X"}, {"bfoo", "u/bfoo", "Y"}, {"dbar", "u/d/bar-go", "D"}, {"ebar", "u/e/bar", "E"},
	{"thing", "u/x/v2", "T"},
	{"baz3", "u/one/two/baz", "P"}, {"baz2", "u/one/baz", "Q"}, {"baz1", "u/two/baz", "R"}, {"onebaz", "u/onebaz", "S"},
	{"mn", "u/m-n", "M"}, {"mn2", "u/m_n", "M"},
	{"context", "context", "Context"}, {"io", "io", "Reader"}, {"strings", "strings", "Builder"}, {"http", "net/http", "Request"},
	{"template", "text/template", "Template"}, {"htmpl", "html/template", "Template"}, {"time", "time", "Duration"},
}

var bParamNames = []string{"foo", "afoo", "bfoo", "bar", "dbar", "ebar", "baz", "onebaz", "twobaz", "onetwobaz", "context", "strings",
	"thing", "v2", "mn", "mn2", "s", "s1", "s2", "n", "n1", "err", "sMoqParam", "fooMoqParam", "afooMoqParam", "sync", "template",
	"http", "io", "time", "a", "b", "x", "y", "sOut", "errOut", "cfoo", "bfooMoqParam", "barMoqParam", "texttemplate", "htmltemplate"}

// PkgB is one engine B source package.
type PkgB struct {
	ID     string
	Files  map[string]string
	Ifaces []string
}

// CellB is one generation: package x flags x name list.
type CellB struct {
	ID    string   `json:"id"`
	Pkg   string   `json:"pkg"`
	Dir   string   `json:"dir"` // absolute, filled in by the orchestrator
	Flags Flags    `json:"flags"`
	Names []string `json:"names"`
}

// CorpusB is the engine B module.
type CorpusB struct {
	Spec     Spec
	Universe map[string]string
	Pkgs     []*PkgB
	Cells    []*CellB
}

type genB struct {
	tp      *tape.Tape
	used    map[string]btype // alias -> type (per file)
	renamed map[string]string
}

func (g *genB) typ(depth int) string {
	if depth < 2 && g.tp.Int(4) == 0 {
		switch g.tp.Int(6) {
		case 0:
			return "[]" + g.typ(depth+1)
		case 1:
			return "map[string]" + g.typ(depth+1)
		case 2:
			return "*" + g.named()
		case 3:
			return "func(" + g.typ(depth+1) + ") " + g.typ(depth+1)
		case 4:
			return "chan " + g.typ(depth+1)
		default:
			return "map[" + g.namedKey() + "]" + g.typ(depth+1)
		}
	}
	if g.tp.Int(5) == 0 {
		return []string{"string", "int", "error", "bool", "[]byte"}[g.tp.Int(5)]
	}
	return g.named()
}

// namedKey picks a named type that is comparable (usable as a map key).
func (g *genB) namedKey() string {
	for {
		t := bTypes[g.tp.Int(len(bTypes))]
		if (strings.HasPrefix(t.path, "u/") && t.typ != "Opt") || (t.path == "time" && t.typ == "Duration") {
			g.used[t.alias] = t
			return "@" + t.alias + "@." + t.typ
		}
	}
}

func (g *genB) named() string {
	t := bTypes[g.tp.Int(len(bTypes))]
	if t.typ == "Opt" && g.tp.Bool() {
		t.typ = "A"
	}
	g.used[t.alias] = t
	return "@" + t.alias + "@." + t.typ
}

func (g *genB) sig() string {
	if g.tp.Int(5) == 0 {
		// two earlier parameters named exactly like the packages a later
		// parameter's type brings in (the names are substituted together
		// with the import names when the file is finished)
		t1 := bTypes[g.tp.Int(len(bTypes))]
		t2 := bTypes[g.tp.Int(len(bTypes))]
		if bPkgName[t1.alias] != bPkgName[t2.alias] && t1.alias != t2.alias {
			g.used[t1.alias], g.used[t2.alias] = t1, t2
			return fmt.Sprintf("(@%s@ string, @%s@ string, fn func(*@%s@.%s, *@%s@.%s) error) error", t1.alias, t2.alias, t1.alias, t1.typ, t2.alias, t2.typ)
		}
	}
	np := 1 + g.tp.Int(5)
	mode := g.tp.Int(3)
	seen := map[string]bool{}
	var ps []string
	for i := 0; i < np; i++ {
		t := g.typ(0)
		if i == np-1 && g.tp.Int(5) == 0 {
			t = "..." + t
		}
		if mode == 1 {
			ps = append(ps, t)
			continue
		}
		n := "_"
		if !(mode == 2 && g.tp.Int(3) == 0) {
			for {
				n = bParamNames[g.tp.Int(len(bParamNames))]
				if !seen[n] {
					break
				}
			}
			seen[n] = true
		}
		ps = append(ps, n+" "+t)
	}
	nr := g.tp.Int(3)
	var rs []string
	for i := 0; i < nr; i++ {
		rs = append(rs, g.typ(1))
	}
	res := ""
	if nr == 1 {
		res = " " + rs[0]
	} else if nr > 1 {
		res = " (" + strings.Join(rs, ", ") + ")"
	}
	return "(" + strings.Join(ps, ", ") + ")" + res
}

// finish chooses the local name of every import of the file (the package's
// own name, unaliased, when no other import of the file took it and the tape
// agrees; the explicit alias otherwise), renders the import block and
// substitutes the names into body.
func (g *genB) finish(body string) string {
	var as []string
	for a := range g.used {
		as = append(as, a)
	}
	sort.Strings(as)
	taken := map[string]bool{}
	var b strings.Builder
	b.WriteString("import (\n")
	for _, a := range as {
		t := g.used[a]
		path := t.path
		if strings.HasPrefix(path, "u/") {
			path = ModuleB + "/" + path
		}
		name := bPkgName[a]
		local := a
		switch g.tp.Int(6) {
		case 0:
			// files of one package may disagree on the alias of a path
			local = a + "x"
		case 1, 2:
			// ... or call it like another package of the universe
			cands := []string{"afoo", "bfoo", "onebaz", "thing", "mn", "bar", "baz", "foo", "client"}
			cnd := cands[g.tp.Int(len(cands))]
			clash := taken[cnd]
			for _, o := range as {
				if bPkgName[o] == cnd || o == cnd {
					clash = true
				}
			}
			if !clash {
				local = cnd
			}
		}
		if !taken[name] && g.tp.Int(3) != 0 {
			local = name
			fmt.Fprintf(&b, "\t%q\n", path)
		} else {
			fmt.Fprintf(&b, "\t%s %q\n", local, path)
		}
		taken[local] = true
		body = strings.ReplaceAll(body, "@"+a+"@", local)
	}
	b.WriteString(")\n")
	return b.String() + body
}

// GenerateB builds the engine B corpus. Pure function of spec.
func GenerateB(spec Spec) *CorpusB {
	c := &CorpusB{Spec: spec, Universe: universeB}
	all := AllFlags()
	perm := permute(len(all), tape.MixS(spec.Seed, "cubeB"))
	for pi := 0; pi < spec.NPkgs; pi++ {
		tp := tape.New(tape.Mix(tape.MixS(spec.Seed, "corpusB"), uint64(pi)))
		p := &PkgB{ID: fmt.Sprintf("q%03d", pi), Files: map[string]string{}}
		nfiles := 1 + tp.Int(2)
		longPkg := false
		for fi := 0; fi < nfiles; fi++ {
			g := &genB{tp: tp, used: map[string]btype{}}
			var body strings.Builder
			ni := 1 + tp.Int(3)
			for k := 0; k < ni; k++ {
				name := fmt.Sprintf("I%c%c", 'A'+fi, 'A'+k)
				p.Ifaces = append(p.Ifaces, name)
				fmt.Fprintf(&body, "\ntype %s interface {\n", name)
				nm := 1 + tp.Int(4)
				for m := 0; m < nm; m++ {
					fmt.Fprintf(&body, "\tM%d%s\n", m, g.sig())
				}
				body.WriteString("}\n")
			}
			text := body.String()
			chain := false
			if st := tape.New(tape.Mix(tape.MixS(spec.Seed, "corpusB-chain"), uint64(pi))); fi == 0 && st.Int(4) == 0 {
				// a parameter named like a package that only a later parameter's type
				// brings in - together with a second package named like the
				// parameter's replacement name
				variants := []string{
					"\tMC(chain int, m map[chain.K]chainMoqParam.Z) error\n}\n",
					"\tMC(chain string, fn func(chainMoqParam.Z) *chain.K)\n}\n",
					"\tMC(n int, chain []byte, pair struct {\n\t\tA chainMoqParam.Z\n\t\tB chain.K\n\t}) (chain.K, error)\n}\n",
				}
				if i := strings.Index(text, "}\n"); i >= 0 {
					text = text[:i] + variants[st.Int(len(variants))] + text[i+2:]
					chain = true
				}
			}
			// "long alias": with two files, the first interface of each file mentions
			// one of the two packages called probe; mocked together they need
			// invented aliases of more than fifty characters
			long := false
			if st := tape.New(tape.Mix(tape.MixS(spec.Seed, "corpusB-long"), uint64(pi))); nfiles == 2 && st.Int(3) == 0 {
				variants := [][2]string{
					{"\tML(p *probe.L1) error\n}\n", "\tML(q probe.L2, s string)\n}\n"},
					{"\tML(probe string, p probe.L1)\n}\n", "\tML(fn func(probe.L2) error) probe.L2\n}\n"},
				}
				if i := strings.Index(text, "}\n"); i >= 0 {
					text = text[:i] + variants[st.Int(len(variants))][fi] + text[i+2:]
					long = true
					longPkg = true
				}
			}
			fin := g.finish(text)
			if long {
				imp := "import (\n\t\"" + ModuleB + "/u/l" + fmt.Sprint(fi+1) + "/observabilityinstrumentation/telemetrycollectors/probe\"\n"
				if strings.Contains(fin, "import (\n") {
					fin = strings.Replace(fin, "import (\n", imp, 1)
				} else {
					fin = imp + ")\n" + fin
				}
			}
			if chain {
				fin = strings.Replace(fin, "import (\n", "import (\n\t\""+ModuleB+"/u/k/chain\"\n\t\""+ModuleB+"/u/k/chainmp\"\n", 1)
			}
			src := "package " + p.ID + "\n\n" + fin
			if fi == 0 {
				src += "\ntype Plain struct{ V int }\n"
			}
			p.Files[fmt.Sprintf("f%d.go", fi)] = src
		}
		c.Pkgs = append(c.Pkgs, p)
		for k := 0; k < spec.ConfigsPer; k++ {
			f := all[perm[(pi*spec.ConfigsPer+k)%len(all)]]
			names := append([]string(nil), p.Ifaces...)
			// vary order and length of the argument list
			for i := len(names) - 1; i > 0; i-- {
				j := tp.Int(i + 1)
				names[i], names[j] = names[j], names[i]
			}
			names = names[:1+tp.Int(len(names))]
			if longPkg && k == 0 {
				// the two interfaces that bring in the two packages called probe, together
				for _, want := range []string{"IAA", "IBA"} {
					have := false
					for _, n := range names {
						have = have || n == want
					}
					if !have {
						names = append(names, want)
					}
				}
			}
			if f.Alias {
				names[0] = names[0] + ":Fake" + names[0]
			}
			c.Cells = append(c.Cells, &CellB{ID: fmt.Sprintf("%s_c%d", p.ID, k), Pkg: p.ID, Flags: f, Names: names})
		}
	}
	return c
}
