// Package corpus generates, from a seed, the scratch module of source
// packages whose interfaces moq is run on for engine A (mocksim).
//
// The grammar stays inside the envelope where moq's output is known to
// compile (DESIGN.md section 8 lists the shapes it avoids on purpose); the
// orchestrator drops and counts any cell that does not build.
package corpus

import (
	"fmt"
	"sort"
	"strings"

	"verif/sim/tape"
)

// Module is the import path of the scratch module.
const Module = "corp"

// Flags mirrors mockharness.Flags (kept separate so that this package has no
// dependency on the harness).
type Flags struct {
	Stub, SkipEnsure, WithResets bool
	Pkg                          string
	Fmt                          string
	Alias                        bool
}

// Args renders the moq command-line flags.
func (f Flags) Args() []string {
	var a []string
	if f.Stub {
		a = append(a, "-stub")
	}
	if f.SkipEnsure {
		a = append(a, "-skip-ensure")
	}
	if f.WithResets {
		a = append(a, "-with-resets")
	}
	if f.Fmt != "" {
		a = append(a, "-fmt", f.Fmt)
	}
	if f.Pkg != "" {
		a = append(a, "-pkg", f.Pkg)
	}
	return a
}

// AllFlags enumerates the full cube: 2^3 booleans x {in place, -pkg mocks} x
// 3 formatters x {default name, alias} = 96 configurations.
func AllFlags() []Flags {
	var out []Flags
	for i := 0; i < 96; i++ {
		f := Flags{Stub: i&1 != 0, SkipEnsure: i&2 != 0, WithResets: i&4 != 0, Alias: i&8 != 0}
		if i&16 != 0 {
			f.Pkg = "mocks"
		}
		f.Fmt = []string{"", "goimports", "noop"}[i/32]
		out = append(out, f)
	}
	return out
}

// Iface is one interface of a source package.
type Iface struct {
	Name     string
	TypeArgs []string // concrete type arguments for the harness ("" qualifier marked by %s)
	Methods  int
	// Unexported lists unexported methods; such an interface can only be
	// mocked inside its own package and is left out of -pkg cells
	Unexported []string
}

// Ifaces returns the interfaces of the cell's package that this cell mocks.
func (c *Cell) Ifaces() []Iface {
	var out []Iface
	for _, i := range c.Pkg.Ifaces {
		if len(i.Unexported) > 0 && c.Flags.Pkg != "" {
			continue
		}
		out = append(out, i)
	}
	return out
}

// Pkg is one generated source package.
type Pkg struct {
	ID     string // p03
	Name   string // package name
	Source string // p.go
	Ifaces []Iface
}

// Cell is one (package, flags) pair: a directory in which moq is run once.
type Cell struct {
	ID    string // p03_c1
	Pkg   *Pkg
	Flags Flags
}

// Dir is the cell's directory relative to the module root.
func (c *Cell) Dir() string { return "cells/" + c.ID }

// ImportPath of the source package copy of this cell.
func (c *Cell) ImportPath() string { return Module + "/cells/" + c.ID }

// MockName returns the mock type name for iface under this cell's flags.
func (c *Cell) MockName(iface string) string {
	if c.Flags.Alias {
		return "Fake" + iface
	}
	return iface + "Mock"
}

// MoqArgs is the full moq command line (run in Dir()).
func (c *Cell) MoqArgs() []string {
	a := c.Flags.Args()
	if c.Flags.Pkg != "" {
		a = append(a, "-out", c.Flags.Pkg+"/mock_gen.go")
	} else {
		a = append(a, "-out", "mock_gen.go")
	}
	a = append(a, ".")
	for _, i := range c.Ifaces() {
		if c.Flags.Alias {
			a = append(a, i.Name+":"+c.MockName(i.Name))
		} else {
			a = append(a, i.Name)
		}
	}
	return a
}

// Spec says how large a corpus to generate.
type Spec struct {
	Seed       uint64 `json:"seed"`
	NPkgs      int    `json:"n_pkgs"`
	ConfigsPer int    `json:"configs_per_pkg"`
}

// Corpus is the generated module.
type Corpus struct {
	Spec     Spec
	Universe map[string]string // path -> content (relative to module root)
	Pkgs     []*Pkg
	Cells    []*Cell
}

// Universe packages: same-named packages at different depths, a package whose
// name differs from its directory, and a user package called "sync".
var universe = map[string]string{
	"u/alpha/alpha.go": `package alpha

type T struct {
	A int
	B string
}

type ID int64

type Handler func(T) error

type Doer interface{ Do(x int) string }
`,
	"u/x/foo/foo.go": `package foo

type Thing struct{ N int }

type Kind uint8
`,
	"u/y/foo/foo.go": `package foo

type Other struct{ S string }
`,
	"u/go-bar/bar.go": `package bar

type Bar struct{ V float64 }
`,
	"u/sync/sync.go": `package sync

type Thing struct{ K int }
`,
	"u/v2/widget.go": `package widget

type W struct{ X int }
`,
}

type imp struct{ alias, path string }

var importOf = map[string]imp{
	"alpha":   {"", Module + "/u/alpha"},
	"foo":     {"", Module + "/u/x/foo"},
	"yfoo":    {"yfoo", Module + "/u/y/foo"},
	"bar":     {"", Module + "/u/go-bar"},
	"sync":    {"", Module + "/u/sync"},
	"widget":  {"", Module + "/u/v2"},
	"context": {"", "context"},
	"io":      {"", "io"},
	"time":    {"", "time"},
	"fmt":     {"", "fmt"},
	"stdsync": {"stdsync", "sync"},
}

type gen struct {
	tp      *tape.Tape
	imports map[string]bool
	tparams []string
	side    uint64 // seed of decisions added later (drawn apart from tp, so older corpora keep their shape)
}

func (g *gen) pick(xs []string) string { return xs[g.tp.Int(len(xs))] }

var leafTypes = []string{
	"int", "string", "bool", "float64", "byte", "uint32", "int8", "error", "any",
	"context.Context", "io.Reader", "time.Duration",
	"alpha.T", "*alpha.T", "alpha.ID", "alpha.Handler", "alpha.Doer", "foo.Thing", "foo.Kind", "yfoo.Other", "*yfoo.Other",
	"bar.Bar", "sync.Thing", "widget.W", "Local", "*Local", "LocalID", "LocalFn", "Sub",
	"int64", "uint", "rune", "complex128", "uintptr", "struct{}", "struct{ A int }", "interface{ M() }",
}

var keyTypes = []string{"string", "int", "alpha.ID", "LocalID", "foo.Kind", "bool"}

func (g *gen) use(t string) string {
	if i := strings.Index(t, "."); i >= 0 {
		q := strings.TrimLeft(t[:i], "*[]")
		if _, ok := importOf[q]; ok {
			g.imports[q] = true
		}
	}
	return t
}

func (g *gen) typ(depth int) string {
	r := g.tp.Int(100)
	if depth >= 2 || r < 55 {
		if len(g.tparams) > 0 && g.tp.Int(3) == 0 {
			return g.pick(g.tparams)
		}
		return g.use(g.pick(leafTypes))
	}
	switch g.tp.Int(9) {
	case 0:
		return "[]" + g.typ(depth+1)
	case 1:
		return "*" + g.use(g.pick([]string{"int", "string", "alpha.T", "Local", "foo.Thing", "[]int"}))
	case 2:
		return fmt.Sprintf("[%d]%s", 1+g.tp.Int(3), g.typ(depth+1))
	case 3:
		return "map[" + g.use(g.pick(keyTypes)) + "]" + g.typ(depth+1)
	case 4:
		return g.pick([]string{"chan ", "<-chan ", "chan<- "}) + g.use(g.pick([]string{"int", "string", "alpha.T", "Local", "error", "struct{}"}))
	case 5:
		n := g.tp.Int(3)
		var ps []string
		for i := 0; i < n; i++ {
			ps = append(ps, g.typ(depth+1))
		}
		res := ""
		switch g.tp.Int(3) {
		case 1:
			res = " " + g.typ(depth+1)
		case 2:
			res = " (" + g.typ(depth+1) + ", error)"
		}
		return "func(" + strings.Join(ps, ", ") + ")" + res
	case 6:
		return "[]" + g.use(g.pick([]string{"byte", "string", "alpha.T", "*alpha.T", "Local", "error", "any"}))
	case 7:
		return "map[string]" + g.use(g.pick([]string{"int", "any", "alpha.T", "[]string", "yfoo.Other"}))
	default:
		return "*" + g.use(g.pick([]string{"alpha.T", "Local", "bar.Bar", "widget.W", "sync.Thing"}))
	}
}

var paramNames = []string{"a", "b", "c", "d", "ctx", "id", "url", "key", "val", "s", "n", "err", "in", "out",
	"foo", "alpha", "bar", "sync", "context", "time", "io", "fmt", "x1", "http", "json", "uuid", "m", "i", "v", "ok",
	"calls", "lock", "yfoo", "widget", "s1", "n1", "fn", "ifaceVal", "val1", "aMoqParam", "errOut", "sOut"}

// method names include mis-cased initialisms (Id, Url, ...): generated identifiers must keep them verbatim
var methodNames = []string{"Get", "Put", "Del", "Fetch", "Store", "Visit", "Open", "Run", "Len", "Each", "Walk", "Send", "Recv", "Ping", "Query", "Exec",
	"Id", "Url", "Http", "Api", "Json", "Uuid"}

type embed struct{ typ, method string }

var embeds = []embed{{"io.Closer", "Close"}, {"fmt.Stringer", "String"}, {"alpha.Doer", "Do"}, {"Sub", "Sub"}, {"Base", "BaseOp"}}

func (g *gen) signature() string {
	np := g.tp.Int(5)
	named := g.tp.Int(3) // 0 named, 1 unnamed, 2 named with blanks
	used := map[string]bool{}
	variadic := np > 0 && g.tp.Int(4) == 0
	var ps []string
	for i := 0; i < np; i++ {
		var t string
		if variadic && i == np-1 {
			if g.tp.Int(3) == 0 {
				t = g.pick([]string{"any", "interface{}"})
			} else {
				t = g.typ(0)
			}
			t = "..." + t
		} else {
			t = g.typ(0)
		}
		switch named {
		case 1:
			ps = append(ps, t)
		default:
			var n string
			if named == 2 && g.tp.Int(3) == 0 {
				n = "_"
			} else {
				for {
					n = g.pick(paramNames)
					if !used[n] {
						break
					}
				}
				used[n] = true
			}
			ps = append(ps, n+" "+t)
		}
	}
	nr := g.tp.Int(4)
	var rs []string
	rnamed := nr > 0 && g.tp.Int(3) == 0
	for i := 0; i < nr; i++ {
		var t string
		if i == nr-1 && nr > 1 && g.tp.Bool() {
			t = "error"
		} else {
			t = g.typ(1)
		}
		if rnamed {
			var n string
			for {
				n = g.pick(paramNames)
				if !used[n] {
					break
				}
			}
			used[n] = true
			rs = append(rs, n+" "+t)
		} else {
			rs = append(rs, t)
		}
	}
	// sometimes a parameter is named like a package that only the results use
	if named != 1 && len(ps) > 0 && len(rs) > 0 && g.tp.Int(2) == 0 {
		for _, q := range []string{"alpha", "foo", "bar", "widget", "time", "io", "context", "yfoo"} {
			inRes, inPar := false, false
			for _, r := range rs {
				if strings.Contains(r, q+".") {
					inRes = true
				}
			}
			for _, p := range ps {
				if strings.Contains(p, q+".") || strings.HasPrefix(p, q+" ") {
					inPar = true
				}
			}
			if inRes && !inPar && !used[q] {
				parts := strings.SplitN(ps[0], " ", 2)
				if len(parts) == 2 && parts[0] != "_" {
					ps[0] = q + " " + parts[1]
					used[q] = true
				}
				break
			}
		}
	}
	res := ""
	switch {
	case len(rs) == 1 && !rnamed:
		res = " " + rs[0]
	case len(rs) > 0:
		res = " (" + strings.Join(rs, ", ") + ")"
	}
	return "(" + strings.Join(ps, ", ") + ")" + res
}

const localDecls = `
type Local struct {
	K int
	S string
}

type LocalID int

type LocalFn func(int) string

type Sub interface{ Sub() int }

type Base interface{ BaseOp(x int) error }

type Cons interface{ String() string }

type Num interface{ ~int | ~int64 }

type Impl int

type LocalList []string

type LocalMap map[string]int

func (Impl) String() string { return "impl" }
`

func (g *gen) iface(name string, shared *embed, extra []string) (string, Iface) {
	var b strings.Builder
	out := Iface{Name: name}
	g.tparams = nil
	header := name
	if g.tp.Int(4) == 0 { // generic
		n := 1 + g.tp.Int(2)
		var decl []string
		for i := 0; i < n; i++ {
			pn := []string{"T", "K", "V", "E"}[g.tp.Int(2)+2*i]
			var cons, arg string
			switch g.tp.Int(4) {
			case 0, 1:
				cons, arg = "any", g.pick([]string{"int", "string", "%sLocal", "*%sLocal"})
			case 2:
				cons, arg = "Cons", "%sImpl"
			default:
				cons, arg = g.pick([]string{"Num", "int | int64"}), "int"
			}
			decl = append(decl, pn+" "+cons)
			g.tparams = append(g.tparams, pn)
			out.TypeArgs = append(out.TypeArgs, arg)
		}
		header += "[" + strings.Join(decl, ", ") + "]"
	}
	fmt.Fprintf(&b, "type %s interface {\n", header)
	taken := map[string]bool{"Swap": true}
	if g.tp.Int(8) == 0 {
		// a method-less interface (legal, and a corner several code paths special-case)
		b.WriteString("}\n")
		return b.String(), out
	}
	if shared != nil && g.tp.Int(3) != 0 {
		g.use(shared.typ)
		fmt.Fprintf(&b, "\t%s\n", shared.typ)
		taken[shared.method] = true
		out.Methods++
	} else if g.tp.Int(4) == 0 {
		e := embeds[g.tp.Int(len(embeds))]
		g.use(e.typ)
		fmt.Fprintf(&b, "\t%s\n", e.typ)
		taken[e.method] = true
		out.Methods++
	}
	nm := g.tp.Int(5)
	if nm == 0 && g.tp.Int(4) != 0 {
		nm = 1 + g.tp.Int(3) // empty interfaces are legal but rare
	}
	for i := 0; i < nm; i++ {
		var mn string
		for {
			mn = g.pick(methodNames)
			if !taken[mn] {
				break
			}
		}
		taken[mn] = true
		fmt.Fprintf(&b, "\t%s%s\n", mn, g.signature())
		out.Methods++
	}
	if g.tp.Int(6) == 0 && !taken["Stat"] {
		// a method whose name starts with "Reset" + another method's name
		fmt.Fprintf(&b, "\tStat(key string) int\n\tResetStats(hard bool)\n")
		taken["Stat"], taken["ResetStats"] = true, true
		out.Methods += 2
	}
	if g.tp.Int(5) == 0 && !taken["Read"] {
		// io.Reader / io.Writer shaped methods (a byte buffer in, (int, error) out)
		fmt.Fprintf(&b, "\t%s\n", g.pick([]string{"Read(p []byte) (int, error)", "Write(p []byte) (n int, err error)", "ReadAt(p []byte, off int64) (int, error)", "Read(buf []byte) (n int, err error)"}))
		taken["Read"], taken["Write"], taken["ReadAt"] = true, true, true
		out.Methods++
	}
	if g.tp.Int(3) == 0 && !taken["Watch"] {
		// parameters named like locals a generated body might want to declare
		pool := []string{"fn", "f", "ok", "v", "ret", "res", "result", "zero", "args", "out", "calls", "lock", "m", "i", "s", "x", "tmp", "buf", "info", "c"}
		a, b2 := pool[g.tp.Int(len(pool))], pool[g.tp.Int(len(pool))]
		if g.tp.Int(3) == 0 {
			a = "fn" // the name generated code reaches for first
		}
		if a != b2 {
			res := []string{"", " error", " (err error)", " (count int, err error)", " (err error)"}[g.tp.Int(5)]
			fmt.Fprintf(&b, "\tWatch(topic string, %s any, %s func())%s\n", a, b2, res)
			taken["Watch"] = true
			out.Methods++
		}
	}
	if len(g.tparams) > 0 && !taken["Pick"] {
		// a generic interface always has a method whose single result is a bare type parameter
		fmt.Fprintf(&b, "\tPick(k %s, n int) %s\n", g.tparams[len(g.tparams)-1], g.tparams[0])
		out.Methods++
	}
	for _, e := range extra {
		fmt.Fprintf(&b, "\t%s\n", e)
		out.Methods++
	}
	if st := tape.New(tape.MixS(g.side, "helper-named:"+name)); st.Int(16) == 0 && !taken["Load"] {
		// an interface method named exactly like a helper moq generates under
		// -with-resets (for another method, or for the whole mock). At the time of
		// writing moq's output for these does not compile with -with-resets (the
		// cell is dropped and counted); without the flag they are ordinary methods.
		fmt.Fprintf(&b, "\tLoad(key string) int\n\t%s\n", []string{"ResetLoadCalls()", "ResetCalls()", "ResetLoadCalls()"}[st.Int(3)])
		out.Methods += 2
	}
	if st := tape.New(tape.MixS(g.side, "named-composites:"+name)); st.Int(4) == 0 && !taken["Batch"] {
		// named slice and map types declared in the source package itself
		fmt.Fprintf(&b, "\t%s\n", []string{"Batch(items LocalList, idx LocalMap) LocalList", "Batch(idx LocalMap, more ...LocalList) (LocalMap, error)", "Batch(_ LocalList, n int)"}[st.Int(3)])
		out.Methods++
	}
	if st := tape.New(tape.MixS(g.side, "result-named-like-type:"+name)); st.Int(5) == 0 && !taken["Split"] {
		// results named like a type that a later result of the same method uses
		// (legal: result names are scoped to the body), and a single func() result
		fmt.Fprintf(&b, "\t%s\n", []string{"Split(key string) (Local *Local, rest *Local, err error)", "Split(n int) (LocalID LocalID, next LocalID)", "Split(topic string) func()"}[st.Int(3)])
		out.Methods++
	}
	if st := tape.New(tape.MixS(g.side, "self-ref:"+name)); len(g.tparams) == 0 && !taken["Chain"] {
		// builder-style methods: the interface itself as the only result, or among
		// the parameters and results
		switch st.Int(6) {
		case 0:
			fmt.Fprintf(&b, "\tChain(cond string) %s\n", name)
			out.Methods++
		case 1:
			fmt.Fprintf(&b, "\tChain(other %s, more ...%s) (%s, error)\n", name, name, name)
			out.Methods++
		}
	}
	b.WriteString("}\n")
	return b.String(), out
}

// Generate builds the corpus for spec. Pure function of spec.
func Generate(spec Spec) *Corpus {
	c := &Corpus{Spec: spec, Universe: universe}
	all := AllFlags()
	for pi := 0; pi < spec.NPkgs; pi++ {
		tp := tape.New(tape.Mix(tape.MixS(spec.Seed, "corpus"), uint64(pi)))
		g := &gen{tp: tp, imports: map[string]bool{}, side: tape.Mix(tape.MixS(spec.Seed, "corpus-side"), uint64(pi))}
		p := &Pkg{ID: fmt.Sprintf("p%02d", pi), Name: fmt.Sprintf("p%02d", pi)}
		var body strings.Builder
		ni := 1 + tp.Int(3)
		if tp.Int(6) == 0 {
			ni = 4 + tp.Int(2) // now and then many interfaces in one moq run
		}
		// interfaces of one package may share an embedded interface (the same
		// method objects reach several mocks of one moq run) ...
		var shared *embed
		if tp.Bool() {
			shared = &embeds[tp.Int(len(embeds))]
		}
		// ... and may have a same-named method whose parameter names are
		// permuted between them (same types in the same positions)
		var siblings [][]string
		if ni > 1 && tp.Int(3) == 0 {
			g.tparams = nil
			t := g.typ(1)
			siblings = [][]string{
				{fmt.Sprintf("Swap(first %s, second %s, n int) (%s, error)", t, t, t)},
				{fmt.Sprintf("Swap(second %s, first %s, n int) (%s, error)", t, t, t)},
				{fmt.Sprintf("Swap(n %s, second %s, first int) (%s, error)", t, t, t)},
			}
		}
		for k := 0; k < ni; k++ {
			var extra []string
			if siblings != nil {
				extra = siblings[k%len(siblings)]
			}
			src, ifc := g.iface(fmt.Sprintf("Iface%02d%c", pi, 'A'+k), shared, extra)
			body.WriteString("\n" + src)
			p.Ifaces = append(p.Ifaces, ifc)
		}
		extra := ""
		if g.imports["sync"] {
			// a user package called sync: moq only copes when the source file
			// itself gives the standard package another name (as its own
			// SyncImport test does; see DESIGN.md section 8)
			g.imports["stdsync"] = true
			extra = "\nvar _ stdsync.Mutex\n"
		}
		if tp.Int(3) == 0 {
			// a sealed-style interface with unexported methods (in-package mocks only)
			name := fmt.Sprintf("Iface%02dU", pi)
			g.tparams = nil
			fmt.Fprintf(&body, "\ntype %s interface {\n\tflush(n int, why string) error\n\tisNode()\n\tLabel(%s) string\n}\n", name, g.typ(1))
			p.Ifaces = append(p.Ifaces, Iface{Name: name, Methods: 3, Unexported: []string{"flush", "isNode"}})
		}
		var names []string
		for n := range g.imports {
			names = append(names, n)
		}
		sort.Strings(names)
		var src strings.Builder
		fmt.Fprintf(&src, "package %s\n\n", p.Name)
		if len(names) > 0 {
			src.WriteString("import (\n")
			for _, n := range names {
				im := importOf[n]
				if im.alias != "" {
					fmt.Fprintf(&src, "\t%s %q\n", im.alias, im.path)
				} else {
					fmt.Fprintf(&src, "\t%q\n", im.path)
				}
			}
			src.WriteString(")\n")
		}
		src.WriteString(localDecls)
		src.WriteString(extra)
		src.WriteString(body.String())
		p.Source = src.String()
		c.Pkgs = append(c.Pkgs, p)
		// configurations: a rotating window over a seed-permuted cube, so that
		// NPkgs*ConfigsPer >= 96 covers every configuration at least once
		perm := permute(len(all), tape.MixS(spec.Seed, "cube"))
		for k := 0; k < spec.ConfigsPer; k++ {
			f := all[perm[(pi*spec.ConfigsPer+k)%len(all)]]
			c.Cells = append(c.Cells, &Cell{ID: fmt.Sprintf("%s_c%d", p.ID, k), Pkg: p, Flags: f})
		}
	}
	return c
}

func permute(n int, seed uint64) []int {
	r := tape.NewSplitMix64(seed)
	p := make([]int, n)
	for i := range p {
		p[i] = i
	}
	for i := n - 1; i > 0; i-- {
		j := int(r.Next() % uint64(i+1))
		p[i], p[j] = p[j], p[i]
	}
	return p
}
