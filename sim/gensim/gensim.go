// Package gensim is engine B: moq's generator driven in-process through its
// public API, from a scratch copy in which every map range, clock read and
// random draw goes through simhook. It decides C14 (byte-identical output
// under every map iteration order, clock and generator instance) and the
// library half of C17 (fault-injecting io.Writer).
package gensim

import (
	"bytes"
	"encoding/binary"
	"encoding/json"
	"errors"
	"flag"
	"fmt"
	"io"
	"os"
	"path/filepath"
	"sort"
	"strings"
	"time"

	"verif/sim/simhook"
	"verif/sim/simrt"
	"verif/sim/tape"
)

// Config mirrors moq.Config.
type Config struct {
	SrcDir, PkgName, Formatter       string
	StubImpl, SkipEnsure, WithResets bool
}

// Mocker is what moq.New returns, as far as the driver needs it.
type Mocker interface {
	Mock(w io.Writer, namePairs ...string) error
}

// NewFunc makes a fresh Mocker for cfg (moq.New).
type NewFunc func(cfg Config) (Mocker, error)

// Cell is one generation request.
type Cell struct {
	ID    string   `json:"id"`
	Pkg   string   `json:"pkg"`
	Dir   string   `json:"dir"`
	Flags Flags    `json:"flags"`
	Names []string `json:"names"`
}

// Flags as in the corpus.
type Flags struct {
	Stub, SkipEnsure, WithResets bool
	Pkg                          string
	Fmt                          string
	Alias                        bool
}

func (c *Cell) config() Config {
	return Config{SrcDir: ".", PkgName: c.Flags.Pkg, Formatter: c.Flags.Fmt, StubImpl: c.Flags.Stub, SkipEnsure: c.Flags.SkipEnsure, WithResets: c.Flags.WithResets}
}

func (c *Cell) String() string {
	return fmt.Sprintf("%s stub=%v skip-ensure=%v with-resets=%v pkg=%q fmt=%q names=%v", c.ID, c.Flags.Stub, c.Flags.SkipEnsure, c.Flags.WithResets, c.Flags.Pkg, c.Flags.Fmt, c.Names)
}

// Finding of engine B.
type Finding struct {
	Prop   string `json:"property"`
	Class  string `json:"class"`
	Site   string `json:"site,omitempty"`
	Detail string `json:"detail"`
}

// Replay of engine B.
type Replay struct {
	Property  string            `json:"property"`
	Class     string            `json:"class"`
	Signature string            `json:"signature"`
	Engine    string            `json:"engine"`
	VerifSeed uint64            `json:"verif_seed"`
	Tier      string            `json:"tier"`
	Corpus    any               `json:"corpus,omitempty"`
	Cell      *Cell             `json:"cell"`
	Partner   *Cell             `json:"partner,omitempty"`
	Tape      []int             `json:"tape"`
	ClockDays int               `json:"clock_days"`
	Writer    *WriterPlan       `json:"writer,omitempty"`
	Names     []string          `json:"names,omitempty"`
	Findings  []Finding         `json:"findings"`
	Trace     []string          `json:"trace"`
	TraceHash string            `json:"trace_hash"`
	Shrink    int               `json:"shrink_executions"`
	OrigTape  int               `json:"original_tape_len"`
	RepoTree  string            `json:"repo_tree_hash,omitempty"`
	Sources   map[string]string `json:"sources,omitempty"`
}

// Result of one worker.
type Result struct {
	Prop        string         `json:"prop"`
	Generations int            `json:"generations"`
	Cells       int            `json:"cells"`
	Errors      int            `json:"cells_with_error_output"`
	Sites       map[string]int `json:"range_sites_with_2plus_keys"`
	Unowned     map[string]int `json:"range_sites_unowned"`
	Faults      map[string]int `json:"faults_fired"`
	Violations  []string       `json:"violation_files"`
	Samples     []string       `json:"samples"`
	Nontrivial  int            `json:"nontrivial"`
	Tasks       int            `json:"goroutines_simulated"`
	WallS       float64        `json:"wall_s"`
	// Unsupported: synchronisation moq's code used that the simulator does not own
	Unsupported []string `json:"unsupported,omitempty"`
	// Signals: observations that are not violations of the property checked
	Signals map[string]int `json:"signals,omitempty"`
}

var newFn NewFunc

// genFn makes a fresh Mocker and generates at once, as the CLI does.
func genFn(cfg Config, w io.Writer, names []string) error {
	m, err := newFn(cfg)
	if err != nil {
		return err
	}
	return m.Mock(w, names...)
}

// generate runs one generation under the given order tape and clock; the
// result is the output bytes or a rendering of the error / panic.
func generate(c *Cell, tp *tape.Tape, clockDays int) (out []byte) {
	if tp != nil {
		simhook.Install(func(n int) int { return tp.Int(n) })
	} else {
		simhook.Install(nil)
	}
	simhook.SetClock(simhook.Epoch().Add(time.Duration(clockDays) * 24 * time.Hour))
	defer simhook.Install(nil)
	// moq runs as the first task of a simulation: goroutines it starts (the
	// seam turns go statements into simulated tasks and sync into simsync) are
	// scheduled from the same tape; with no tape the schedule is canonical
	st := tp
	if st == nil {
		st = tape.Replay(nil)
	}
	sim := simrt.New(st, simrt.Strategy{})
	sim.MaxEvents = 2000000
	sim.Go("moq", func() {
		defer func() {
			if r := recover(); r != nil {
				out = []byte(fmt.Sprintf("PANIC: %v", r))
			}
		}()
		var buf bytes.Buffer
		if err := genFn(c.config(), &buf, c.Names); err != nil {
			out = []byte("ERROR: " + err.Error())
			return
		}
		out = buf.Bytes()
	})
	if !sim.Run() {
		var vs []string
		for _, v := range sim.Viol {
			vs = append(vs, v.Class+": "+v.Detail)
		}
		noteUnsupported(sim)
		return []byte("STUCK: " + strings.Join(vs, "; "))
	}
	noteUnsupported(sim)
	tasksSpawned += len(sim.Tasks()) - 1
	return out
}

func noteUnsupported(sim *simrt.Sim) {
	for _, v := range sim.Viol {
		if v.Class == "unsupported" && len(unsupportedSeen) < 5 {
			unsupportedSeen = append(unsupportedSeen, v.Detail)
		}
	}
}

var tasksSpawned int

// unsupportedSeen collects what moq's code used that the simulator does not
// own (sync.Cond, ...): results obtained under it say nothing about moq.
var unsupportedSeen []string

// same compares two generation results: outputs byte for byte; failures only
// as failures of the same kind (the wording of an error message is a
// diagnostic, not output, and may well list things in map order).
func same(a, b []byte) bool {
	norm := func(x []byte) []byte {
		for _, p := range []string{"ERROR: ", "PANIC: ", "STUCK"} {
			if bytes.HasPrefix(x, []byte(p)) {
				return []byte(p)
			}
		}
		return x
	}
	return bytes.Equal(norm(a), norm(b))
}

func firstDiff(a, b []byte) string {
	la, lb := bytes.Split(a, []byte("\n")), bytes.Split(b, []byte("\n"))
	for i := 0; i < len(la) && i < len(lb); i++ {
		if !bytes.Equal(la[i], lb[i]) {
			return fmt.Sprintf("line %d: %q vs %q", i+1, trunc(la[i]), trunc(lb[i]))
		}
	}
	return fmt.Sprintf("%d vs %d lines", len(la), len(lb))
}

func trunc(b []byte) string {
	if len(b) > 120 {
		return string(b[:120]) + "…"
	}
	return string(b)
}

// Main is the entry point of the scratch-built driver.
func Main(nf NewFunc) {
	newFn = nf
	if len(os.Args) < 2 {
		fmt.Fprintln(os.Stderr, "usage: gensimdrv worker|replay ...")
		os.Exit(2)
	}
	switch os.Args[1] {
	case "worker":
		workerMain(os.Args[2:])
	case "replay":
		replayMain(os.Args[2:])
	default:
		os.Exit(2)
	}
}

func loadCells(path string) []*Cell {
	data, err := os.ReadFile(path)
	if err != nil {
		fmt.Fprintln(os.Stderr, err)
		os.Exit(2)
	}
	var cells []*Cell
	if err := json.Unmarshal(data, &cells); err != nil {
		fmt.Fprintln(os.Stderr, err)
		os.Exit(2)
	}
	return cells
}

func workerMain(args []string) {
	fl := flag.NewFlagSet("worker", flag.ExitOnError)
	prop := fl.String("prop", "C14", "property")
	seed := fl.Uint64("seed", 1, "seed")
	shard := fl.Int("shard", 0, "shard")
	nshards := fl.Int("nshards", 1, "shards")
	cellsFile := fl.String("cells", "", "cells json")
	orders := fl.Int("orders", 8, "orders per cell")
	out := fl.String("out", "", "result prefix")
	tier := fl.String("tier", "quick", "tier")
	dump := fl.String("dump", "", "write canonical outputs here (cross-process comparison)")
	exclude := fl.String("exclude", "", "cell ids to leave out (moq itself crashed on them), comma-separated")
	fl.Parse(args)
	skip := map[string]bool{}
	for _, id := range strings.Split(*exclude, ",") {
		if id != "" {
			skip[id] = true
		}
	}
	cells := loadCells(*cellsFile)
	for i, c := range cells {
		for _, j := range []int{i + 1, i - 1} {
			if j >= 0 && j < len(cells) && cells[j].Pkg == c.Pkg {
				partnerOf[c.ID] = cells[j]
				break
			}
		}
	}
	start := time.Now()
	res := &Result{Prop: *prop, Sites: map[string]int{}, Unowned: map[string]int{}, Faults: map[string]int{}, Signals: map[string]int{}}
	sigs := map[uint64]struct{}{}
	dumped := map[string]string{}
	for i := *shard; i < len(cells); i += *nshards {
		c := cells[i]
		if skip[c.ID] {
			continue
		}
		// (a stack overflow inside moq cannot be recovered from: the driver says
		// which cell it is about to touch, and is restarted without it)
		os.WriteFile(fmt.Sprintf("%s.cur.%d", *out, *shard), []byte(c.ID), 0o644)
		if os.Getenv("GENSIM_TEST_CRASH_CELL") == c.ID {
			// self-test of the restart path only
			fmt.Fprintln(os.Stderr, "fatal error: stack overflow (simulated for the self-test of the restart path)")
			os.Exit(2)
		}
		if err := os.Chdir(c.Dir); err != nil {
			fmt.Fprintln(os.Stderr, err)
			os.Exit(2)
		}
		res.Cells++
		switch *prop {
		case "C14":
			checkC14(c, *seed, *orders, *tier, *out, res, sigs, dumped)
		case "C17":
			checkWriter(c, *seed, *tier, *out, res, sigs)
		case "C08":
			checkResetsOnRequest(c, *seed, *tier, *out, res, sigs)
		}
	}
	simhook.Install(nil)
	res.Tasks = tasksSpawned
	res.Unsupported = unsupportedSeen
	res.WallS = time.Since(start).Seconds()
	keys := make([]uint64, 0, len(sigs))
	for k := range sigs {
		keys = append(keys, k)
	}
	sort.Slice(keys, func(i, j int) bool { return keys[i] < keys[j] })
	buf := make([]byte, 8*len(keys))
	for i, k := range keys {
		binary.LittleEndian.PutUint64(buf[8*i:], k)
	}
	os.WriteFile(fmt.Sprintf("%s.sigs.%d", *out, *shard), buf, 0o644)
	data, _ := json.MarshalIndent(res, "", " ")
	os.WriteFile(fmt.Sprintf("%s.res.%d.json", *out, *shard), data, 0o644)
	if *dump != "" {
		d, _ := json.Marshal(dumped)
		os.WriteFile(fmt.Sprintf("%s.%d.json", *dump, *shard), d, 0o644)
	}
}

func hashInts(seed uint64, xs []int) uint64 {
	h := seed ^ 14695981039346656037
	for _, x := range xs {
		h ^= uint64(x) + 1
		h *= 1099511628211
	}
	return h
}

func fnvs(s string) uint64 {
	h := uint64(14695981039346656037)
	for i := 0; i < len(s); i++ {
		h ^= uint64(s[i])
		h *= 1099511628211
	}
	return h
}

// partnerOf: another cell of the same package (same directory), so that two
// different files are generated at the same time.
var partnerOf = map[string]*Cell{}

func checkC14(c *Cell, seed uint64, orders int, tier, out string, res *Result, sigs map[uint64]struct{}, dumped map[string]string) {
	simhook.ResetSites()
	ref := generate(c, nil, 0)
	res.Generations++
	dumped[c.ID] = string(ref)
	if bytes.HasPrefix(ref, []byte("ERROR: ")) || bytes.HasPrefix(ref, []byte("PANIC: ")) {
		res.Errors++
	}
	// a second canonical generation with a fresh instance: repetition alone
	again := generate(c, nil, 0)
	res.Generations++
	report := func(class string, tp []int, days int, got []byte) {
		detail := fmt.Sprintf("%s: output differs from the canonical-order generation: %s", c, firstDiff(ref, got))
		rp := &Replay{Property: "C14", Class: class, Signature: class, Engine: "gensim", VerifSeed: seed, Tier: tier, Cell: c, Tape: tp, ClockDays: days,
			Findings: []Finding{{Prop: "C14", Class: class, Detail: detail}}, OrigTape: len(tp)}
		// minimise the order tape towards the identity
		min, execs := minimiseTape(tp, func(t []int) bool {
			return !same(generate(c, tape.Replay(t), days), ref)
		})
		if days != 0 && !same(generate(c, tape.Replay(min), 0), ref) {
			days = 0
		}
		rp.Tape, rp.Shrink, rp.ClockDays = min, execs, days
		got2 := generate(c, tape.Replay(min), days)
		rp.Trace = []string{"canonical order, clock t0: " + summary(ref), fmt.Sprintf("order tape %v, clock t0+%dd: %s", min, days, summary(got2)), "first difference: " + firstDiff(ref, got2)}
		rp.TraceHash = fmt.Sprintf("%016x", fnvs(string(ref))^fnvs(string(got2)))
		name := fmt.Sprintf("%s.viol.%s.%s.json", out, c.ID, class)
		data, _ := json.MarshalIndent(rp, "", " ")
		os.WriteFile(name, data, 0o644)
		res.Violations = append(res.Violations, name)
	}
	if !same(again, ref) {
		report("differs-on-repetition", nil, 0, again)
		return
	}
	base := tape.MixS(tape.Mix(seed, fnvs(c.ID)), "orders")
	for k := 0; k < orders; k++ {
		tp := tape.New(tape.Mix(base, uint64(k)))
		days := 0
		if k%2 == 1 {
			days = 1 + int(tape.Mix(base, uint64(k)+1000)%4000)
		}
		got := generate(c, tp, days)
		res.Generations++
		if len(tp.Out) > 0 {
			sigs[hashInts(fnvs(c.ID), tp.Out)] = struct{}{}
			res.Nontrivial++
		}
		if !same(got, ref) {
			report("order-or-clock-dependent-output", tp.Out, days, got)
			return // one finding per cell: what follows would only restate it
		}
	}
	// fresh generator instances that coexist: another Mocker with different
	// options is created between New and Mock; and two Mockers generate
	// concurrently (two simulated tasks, writers that yield mid-write)
	if got := interleaved(c, nil); !same(got, ref) {
		report("depends-on-other-generator-instances", nil, 0, got)
		return
	}
	res.Generations++
	// (only when moq's own code starts goroutines or uses mutexes, pools, maps,
	// wait groups or atomics: the property speaks of fresh instances, not of
	// instances used at the same time; a sync.Once for lazy initialisation is
	// no statement about concurrent use)
	for k := 0; k < 2 && k < orders && os.Getenv("GENSIM_CONCURRENT") == "1"; k++ {
		tp := tape.New(tape.Mix(base, uint64(5000+k)))
		d := partnerOf[c.ID]
		if d == nil {
			d = c
		}
		refD := ref
		if d != c {
			refD = generate(d, nil, 0)
		}
		a, b := concurrentPair(c, d, tp)
		res.Generations += 2
		res.Nontrivial++
		sigs[hashInts(fnvs(c.ID)^77, tp.Out)] = struct{}{}
		if !same(a, ref) || !same(b, refD) {
			// (this part only runs when moq's own code uses devices whose purpose
			// is concurrent use - goroutines, mutexes, pools, atomics: then fresh
			// instances are also expected to be usable side by side)
			res.Signals["concurrent-instances-interfere"]++
			reportConc(c, d, seed, tier, out, res, ref, refD, tp.Out)
			break
		}
	}
	for s, n := range simhook.Sites {
		res.Sites[s] += n
	}
	for s, n := range simhook.Unowned {
		res.Unowned[s] += n
	}
	if len(res.Samples) < 2 {
		res.Samples = append(res.Samples, fmt.Sprintf("%s -> %s; %d permuted orders + clock jumps, all byte-identical", c, summary(ref), orders))
	}
}

// flipped returns c's configuration with every boolean option inverted.
func flipped(c *Cell) Config {
	cfg := c.config()
	cfg.StubImpl, cfg.SkipEnsure, cfg.WithResets = !cfg.StubImpl, !cfg.SkipEnsure, !cfg.WithResets
	return cfg
}

// interleaved: New(c), New(other options), then c's Mock.
func interleaved(c *Cell, tp *tape.Tape) (out []byte) {
	return inSim(tp, func() []byte {
		a, err := newFn(c.config())
		if err != nil {
			return []byte("ERROR: " + err.Error())
		}
		if _, err := newFn(flipped(c)); err != nil {
			return []byte("ERROR: second instance: " + err.Error())
		}
		// ... and a third one for a package of ANOTHER module, same formatter
		// (what a Mocker learns about "its" module must stay its own)
		if other, err := filepath.Abs(filepath.Join("..", "..", "m2", "q")); err == nil {
			if _, serr := os.Stat(other); serr == nil {
				oc := flipped(c) // (the last instance created before Mock differs in everything but the formatter)
				oc.SrcDir, oc.PkgName = other, ""
				if _, err := newFn(oc); err != nil {
					return []byte("ERROR: instance for another module: " + err.Error())
				}
			}
		}
		var buf bytes.Buffer
		if err := a.Mock(&buf, c.Names...); err != nil {
			return []byte("ERROR: " + err.Error())
		}
		return buf.Bytes()
	})
}

// yieldingWriter copies what it is given in two halves with a sim point in
// between, as a slow destination would.
type yieldingWriter struct {
	sim *simrt.Sim
	buf bytes.Buffer
}

func (w *yieldingWriter) Write(p []byte) (int, error) {
	h := len(p) / 2
	w.buf.Write(p[:h])
	w.sim.Point("writer: half of the bytes taken")
	w.buf.Write(p[h:])
	return len(p), nil
}

// concurrentPair generates c and d at the same time in two simulated tasks.
func concurrentPair(c, d *Cell, tp *tape.Tape) (a, b []byte) {
	simhook.Install(nil)
	simhook.SetClock(simhook.Epoch())
	sim := simrt.New(tp, simrt.Strategy{})
	sim.MaxEvents = 2000000
	run := func(c *Cell, dst *[]byte) func() {
		return func() {
			defer func() {
				if r := recover(); r != nil {
					*dst = []byte(fmt.Sprintf("PANIC: %v", r))
				}
			}()
			m, err := newFn(c.config())
			if err != nil {
				*dst = []byte("ERROR: " + err.Error())
				return
			}
			sim.Point("instance created")
			w := &yieldingWriter{sim: sim}
			if err := m.Mock(w, c.Names...); err != nil {
				*dst = []byte("ERROR: " + err.Error())
				return
			}
			*dst = w.buf.Bytes()
		}
	}
	sim.Go("gen-a", run(c, &a))
	sim.Go("gen-b", run(d, &b))
	if !sim.Run() {
		return []byte("STUCK"), []byte("STUCK")
	}
	return a, b
}

// inSim runs f as the first task of a simulation drawing from tp.
func inSim(tp *tape.Tape, f func() []byte) (out []byte) {
	st := tp
	if st == nil {
		st = tape.Replay(nil)
	}
	simhook.Install(nil)
	simhook.SetClock(simhook.Epoch()) // the canonical clock, as for the reference generation
	sim := simrt.New(st, simrt.Strategy{})
	sim.MaxEvents = 2000000
	sim.Go("moq", func() {
		defer func() {
			if r := recover(); r != nil {
				out = []byte(fmt.Sprintf("PANIC: %v", r))
			}
		}()
		out = f()
	})
	if !sim.Run() {
		return []byte("STUCK")
	}
	return out
}

func reportConc(c, d *Cell, seed uint64, tier, out string, res *Result, ref, refD []byte, tp []int) {
	class := "concurrent-instances-interfere"
	min, execs := minimiseTape(tp, func(t []int) bool {
		a, b := concurrentPair(c, d, tape.Replay(t))
		return !bytes.Equal(a, ref) || !bytes.Equal(b, refD)
	})
	a, b := concurrentPair(c, d, tape.Replay(min))
	if bytes.Equal(a, ref) {
		a, ref = b, refD
	}
	rp := &Replay{Property: "C14", Class: class, Signature: class, Engine: "gensim", VerifSeed: seed, Tier: tier, Cell: c, Partner: d, Tape: min, Shrink: execs, OrigTape: len(tp),
		Findings: []Finding{{Prop: "C14", Class: class, Detail: fmt.Sprintf("%s: two generator instances running at the same time: output differs from the solo generation: %s", c, firstDiff(ref, a))}},
		Trace:    []string{"solo: " + summary(ref), fmt.Sprintf("concurrent pair under schedule %v: %s", min, summary(a)), "first difference: " + firstDiff(ref, a)}}
	rp.TraceHash = fmt.Sprintf("%016x", fnvs(string(ref))^fnvs(string(a)))
	name := fmt.Sprintf("%s.viol.%s.conc.json", out, c.ID)
	data, _ := json.MarshalIndent(rp, "", " ")
	os.WriteFile(name, data, 0o644)
	res.Violations = append(res.Violations, name)
}

func summary(b []byte) string {
	if bytes.HasPrefix(b, []byte("ERROR: ")) || bytes.HasPrefix(b, []byte("PANIC: ")) {
		return trunc(b)
	}
	return fmt.Sprintf("%d bytes, fnv %08x", len(b), uint32(fnvs(string(b))))
}

// minimiseTape zeroes blocks of the tape, then single entries, then cuts the
// tail, while fails keeps returning true.
func minimiseTape(tp []int, fails func([]int) bool) ([]int, int) {
	best := append([]int(nil), tp...)
	execs := 0
	try := func(t []int) bool {
		if execs > 400 {
			return false
		}
		execs++
		return fails(t)
	}
	if !try(best) {
		return best, execs
	}
	for size := len(best); size >= 1; size /= 2 {
		for lo := 0; lo < len(best); lo += size {
			hi := lo + size
			if hi > len(best) {
				hi = len(best)
			}
			cand := append([]int(nil), best...)
			changed := false
			for i := lo; i < hi; i++ {
				if cand[i] != 0 {
					cand[i] = 0
					changed = true
				}
			}
			if changed && try(cand) {
				best = cand
			}
		}
	}
	for n := len(best); n > 0 && best[n-1] == 0; n-- {
		best = best[:n-1]
	}
	for i := range best {
		for best[i] > 1 {
			cand := append([]int(nil), best...)
			cand[i]--
			if !try(cand) {
				break
			}
			best = cand
		}
	}
	return best, execs
}

// ---- C17, library half: a fault-injecting io.Writer ----

// WriterPlan says how the writer handed to Mocker.Mock misbehaves.
type WriterPlan struct {
	Kind   string `json:"kind"` // ok, error, short
	Accept int    `json:"accept_pm"`
}

type faultWriter struct {
	plan       WriterPlan
	calls      int
	got        []byte // bytes accepted
	offered    []byte // bytes handed to Write, concatenated
	firstN     int
	errored    bool
	afterError int // Write calls made after one had failed
}

var errInjected = errors.New("injected writer failure")

func (w *faultWriter) Write(p []byte) (int, error) {
	w.calls++
	if w.calls == 1 {
		w.firstN = len(p)
	}
	if w.errored {
		w.afterError++
	}
	w.offered = append(w.offered, p...)
	switch w.plan.Kind {
	case "error":
		w.errored = true
		return 0, errInjected
	case "short":
		n := len(p) * w.plan.Accept / 1000
		w.got = append(w.got, p[:n]...)
		w.errored = true
		return n, errInjected
	}
	w.got = append(w.got, p...)
	return len(p), nil
}

func runWriter(c *Cell, names []string, plan WriterPlan) (w *faultWriter, err error, panicked string) {
	w = &faultWriter{plan: plan}
	simhook.Install(nil)
	simhook.SetClock(simhook.Epoch())
	// as the first task of a (canonically scheduled) simulation: moq's code may
	// use sync or start goroutines, which exist only inside one
	sim := simrt.New(tape.Replay(nil), simrt.Strategy{})
	sim.MaxEvents = 2000000
	sim.Go("moq", func() {
		defer func() {
			if r := recover(); r != nil {
				panicked = fmt.Sprint(r)
			}
		}()
		err = genFn(c.config(), w, names)
	})
	if !sim.Run() && panicked == "" {
		panicked = "STUCK"
	}
	noteUnsupported(sim)
	return
}

func writerFindings(c *Cell, names []string, bad string, plan WriterPlan, ref []byte, refErr bool) ([]Finding, []string) {
	w, err, panicked := runWriter(c, names, plan)
	var fs []Finding
	tr := []string{fmt.Sprintf("Mock(w, %v) with writer %s/%d‰ -> err=%v, %d Write call(s), %d bytes accepted", names, plan.Kind, plan.Accept, err, w.calls, len(w.got))}
	add := func(class, site, format string, a ...any) {
		fs = append(fs, Finding{Prop: "C17", Class: class, Site: site, Detail: fmt.Sprintf(format, a...)})
	}
	if panicked != "" {
		return nil, tr // C19's business
	}
	mustFail := bad != "" || refErr
	switch {
	case mustFail:
		if err == nil {
			add("library-nil-error-on-failure", bad, "%s: Mock(%v) must fail (%s) but returned nil", c, names, bad)
		}
		if w.calls > 0 {
			add("library-wrote-before-failing", bad, "%s: Mock(%v) failed (%v) after calling Write %d time(s) with %d bytes", c, names, err, w.calls, w.firstN)
		}
	case plan.Kind == "ok":
		if err != nil {
			add("library-unexpected-error", "", "%s: Mock(%v): %v", c, names, err)
		} else if !bytes.Equal(w.got, ref) {
			add("library-output-incomplete", "", "%s: Mock(%v) wrote %d bytes in %d Write call(s), the complete file has %d (written exactly once, it would be identical)", c, names, len(w.got), w.calls, len(ref))
		}
	default: // failing writer
		if err == nil {
			add("library-writer-error-ignored", "writer:"+plan.Kind, "%s: the writer failed (%s) but Mock(%v) returned nil", c, plan.Kind, names)
		}
		if w.afterError > 0 {
			add("library-wrote-on-after-write-error", "writer:"+plan.Kind, "%s: Mock(%v) called Write %d more time(s) after the writer had failed", c, names, w.afterError)
		} else if !bytes.HasPrefix(ref, w.offered) {
			add("library-output-incomplete", "writer:"+plan.Kind, "%s: what Mock(%v) handed to the failing writer (%d bytes) is not a prefix of the complete file", c, names, len(w.offered))
		}
	}
	return fs, tr
}

func checkWriter(c *Cell, seed uint64, tier, out string, res *Result, sigs map[uint64]struct{}) {
	tp := tape.New(tape.MixS(tape.Mix(seed, fnvs(c.ID)), "writer"))
	ref := generate(c, nil, 0)
	res.Generations++
	refErr := bytes.HasPrefix(ref, []byte("ERROR: ")) || bytes.HasPrefix(ref, []byte("PANIC: "))
	if refErr {
		res.Errors++
	}
	type tcase struct {
		names []string
		bad   string
		plan  WriterPlan
	}
	var cases []tcase
	cases = append(cases, tcase{c.Names, "", WriterPlan{Kind: "ok"}})
	for _, pl := range []WriterPlan{{Kind: "error"}, {Kind: "short", Accept: 1}, {Kind: "short", Accept: 500}, {Kind: "short", Accept: 999}} {
		cases = append(cases, tcase{c.Names, "", pl})
	}
	for _, bad := range []string{"Nope", "Plain", "IAA:bad-alias"} {
		if bad == "IAA:bad-alias" && c.Flags.Fmt == "noop" {
			continue
		}
		k := tp.Int(len(c.Names) + 1)
		names := append(append(append([]string(nil), c.Names[:k]...), bad), c.Names[k:]...)
		site := map[string]string{"Nope": "unknown", "Plain": "notiface", "IAA:bad-alias": "badalias"}[bad] + fmt.Sprintf("-at-%d-of-%d", k, len(names))
		cases = append(cases, tcase{names, site, WriterPlan{Kind: []string{"ok", "error", "short"}[tp.Int(3)], Accept: 500}})
	}
	seen := map[string]bool{}
	for _, tc := range cases {
		fs, tr := writerFindings(c, tc.names, tc.bad, tc.plan, ref, refErr)
		res.Generations++
		res.Nontrivial++
		if tc.plan.Kind != "ok" {
			res.Faults["writer-"+tc.plan.Kind]++
		}
		if tc.bad != "" {
			res.Faults["bad-name-"+strings.SplitN(tc.bad, "-at-", 2)[0]]++
		}
		sigs[fnvs(c.ID+strings.Join(tc.names, ",")+tc.plan.Kind+fmt.Sprint(tc.plan.Accept))] = struct{}{}
		for _, f := range fs {
			if seen[f.Class] {
				continue
			}
			seen[f.Class] = true
			sig := f.Class
			if f.Site != "" {
				sig += "@" + strings.SplitN(f.Site, "-at-", 2)[0]
			}
			rp := &Replay{Property: "C17", Class: f.Class, Signature: sig, Engine: "gensim", VerifSeed: seed, Tier: tier, Cell: c,
				Writer: &tc.plan, Names: tc.names, Findings: fs, Trace: tr, TraceHash: fmt.Sprintf("%016x", fnvs(strings.Join(tr, "|")))}
			name := fmt.Sprintf("%s.viol.%s.%d.json", out, c.ID, len(res.Violations))
			data, _ := json.MarshalIndent(rp, "", " ")
			os.WriteFile(name, data, 0o644)
			res.Violations = append(res.Violations, name)
		}
	}
	if len(res.Samples) < 2 {
		res.Samples = append(res.Samples, fmt.Sprintf("%s: %d writer/name-list cases against reference %s", c, len(cases), summary(ref)))
	}
}

// checkResetsOnRequest (C08, library level): the reset API appears in the
// output exactly when this Mocker was configured with WithResets, whatever
// other Mockers exist in the process.
func checkResetsOnRequest(c *Cell, seed uint64, tier, out string, res *Result, sigs map[uint64]struct{}) {
	for variant, gen := range []func() []byte{func() []byte { return generate(c, nil, 0) }, func() []byte { return interleaved(c, nil) }} {
		got := gen()
		res.Generations++
		res.Nontrivial++
		sigs[fnvs(c.ID)+uint64(variant)] = struct{}{}
		if bytes.HasPrefix(got, []byte("ERROR: ")) || bytes.HasPrefix(got, []byte("PANIC: ")) {
			res.Errors++
			continue
		}
		has := bytes.Contains(got, []byte(") ResetCalls() {"))
		if has == c.Flags.WithResets {
			continue
		}
		class := "reset-api-without-request"
		if c.Flags.WithResets {
			class = "reset-api-missing-on-request"
		}
		how := []string{"generated alone", "with another Mocker (opposite options) created between New and Mock"}[variant]
		rp := &Replay{Property: "C08", Class: class, Signature: class, Engine: "gensim", VerifSeed: seed, Tier: tier, Cell: c,
			Findings: []Finding{{Prop: "C08", Class: class, Detail: fmt.Sprintf("%s, %s: WithResets=%v but ResetCalls() present=%v", c, how, c.Flags.WithResets, has)}},
			Trace:    []string{fmt.Sprintf("variant %d (%s): %s", variant, how, summary(got))}, Names: []string{fmt.Sprint(variant)}}
		rp.TraceHash = fmt.Sprintf("%016x", fnvs(string(got)))
		name := fmt.Sprintf("%s.viol.%s.json", out, c.ID)
		data, _ := json.MarshalIndent(rp, "", " ")
		os.WriteFile(name, data, 0o644)
		res.Violations = append(res.Violations, name)
		return
	}
	if len(res.Samples) < 2 {
		res.Samples = append(res.Samples, fmt.Sprintf("%s: reset API present iff requested, alone and next to an opposite-options Mocker", c))
	}
}

func replayMain(args []string) {
	fl := flag.NewFlagSet("replay", flag.ExitOnError)
	file := fl.String("file", "", "replay file")
	fl.Parse(args)
	data, err := os.ReadFile(*file)
	if err != nil {
		fmt.Fprintln(os.Stderr, err)
		os.Exit(2)
	}
	var rp Replay
	if err := json.Unmarshal(data, &rp); err != nil {
		fmt.Fprintln(os.Stderr, err)
		os.Exit(2)
	}
	if err := os.Chdir(rp.Cell.Dir); err != nil {
		fmt.Fprintln(os.Stderr, err)
		os.Exit(2)
	}
	out := struct {
		Same     bool      `json:"reproduced"`
		Trace    []string  `json:"trace"`
		Findings []Finding `json:"findings"`
	}{}
	switch rp.Property {
	case "C08":
		got := generate(rp.Cell, nil, 0)
		if len(rp.Names) == 1 && rp.Names[0] == "1" {
			got = interleaved(rp.Cell, nil)
		}
		has := bytes.Contains(got, []byte(") ResetCalls() {"))
		out.Trace = []string{fmt.Sprintf("WithResets=%v, ResetCalls() present=%v", rp.Cell.Flags.WithResets, has)}
		out.Same = has != rp.Cell.Flags.WithResets
	case "C14":
		ref := generate(rp.Cell, nil, 0)
		got := generate(rp.Cell, tape.Replay(rp.Tape), rp.ClockDays)
		switch rp.Class {
		case "depends-on-other-generator-instances":
			got = interleaved(rp.Cell, nil)
		case "concurrent-instances-interfere":
			d := rp.Partner
			if d == nil {
				d = rp.Cell
			}
			d.Dir = rp.Cell.Dir
			a, b := concurrentPair(rp.Cell, d, tape.Replay(rp.Tape))
			got = a
			if bytes.Equal(a, ref) {
				ref, got = generate(d, nil, 0), b
			}
		}
		out.Trace = []string{"canonical: " + summary(ref), "replayed order: " + summary(got), "first difference: " + firstDiff(ref, got)}
		out.Same = !bytes.Equal(ref, got)
	case "C17":
		ref := generate(rp.Cell, nil, 0)
		refErr := bytes.HasPrefix(ref, []byte("ERROR: ")) || bytes.HasPrefix(ref, []byte("PANIC: "))
		bad := ""
		for _, f := range rp.Findings {
			if f.Class == rp.Class {
				bad = f.Site
			}
		}
		if strings.HasPrefix(bad, "writer:") {
			bad = ""
		}
		fs, tr := writerFindings(rp.Cell, rp.Names, bad, *rp.Writer, ref, refErr)
		out.Trace, out.Findings = tr, fs
		for _, f := range fs {
			if f.Class == rp.Class {
				out.Same = true
			}
		}
	}
	json.NewEncoder(os.Stdout).Encode(out)
}
