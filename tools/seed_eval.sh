#!/bin/bash
# usage: tools/seed_eval.sh <agent-out-dir> <id> <prop> [<prop>...]
# Verifies a candidate change independently (applies, builds, baseline tests, demo with/without)
# and runs the named quick checks against a patched scratch worktree (VERIF_REPO), never /repo.
src="$1"; id="$2"; shift 2
export PATH=/opt/veriftools/go1.26.8/bin:$PATH GOTOOLCHAIN=local GOFLAGS=-mod=mod GOPROXY=off GOSUMDB=off
wt=/tmp/vs/$id; base=/tmp/vs/base
mkdir -p /tmp/vs
[ -d $base ] || git -C /repo worktree add -q --detach $base HEAD
git -C /repo worktree remove --force $wt 2>/dev/null
git -C /repo worktree add -q --detach $wt HEAD || exit 2
log=/tmp/vs/$id.log; : > $log
( cd $wt && git apply "$src/patch.diff" ) >>$log 2>&1 || { echo "$id: PATCH DOES NOT APPLY"; exit 1; }
( cd $wt && go build ./... && go vet . ./pkg/moq ./internal/... ) >>$log 2>&1 && b=ok || b=FAIL
t=$( cd $wt && go test -vet=off -count=1 ./... 2>&1 | grep -E '^(--- FAIL|FAIL|ok)' | tr '\n' ' ' )
case "$t" in *"--- FAIL: TestGoGenerateVendoredPackages"*) tt=$(echo "$t" | grep -o -- '--- FAIL: [A-Za-z/_]*' | grep -v TestGoGenerateVendoredPackages | tr '\n' ' ');; *) tt="(baseline failure missing?) $t";; esac
[ -z "$tt" ] && tests=ok || tests="FAIL[$tt]"
dp=skip; du=skip
if [ -f "$src/demo/run.sh" ] && [ -z "$SKIP_DEMO" ]; then
  ( cd "$src/demo" && timeout 900 bash ./run.sh $wt ) >>$log 2>&1; dp=$?
  ( cd "$src/demo" && timeout 900 bash ./run.sh $base ) >>$log 2>&1; du=$?
fi
echo "$id: build=$b tests=$tests demo(patched)=$dp demo(unpatched)=$du"
for p in "$@"; do
  out=$(cd ${VCHECK_DIR:-/verif} && VERIF_REPO=$wt VERIF_OUT=/tmp/vs/$id.out ./vcheck check -prop "$p" -tier quick 2>&1 | grep -v '^WARNING'); 
  v=$(printf '%s\n' "$out" | grep -c '^VIOLATION')
  echo "   $id $p: violations=$v $(printf '%s\n' "$out" | grep '^VIOLATION' | head -1 | cut -c1-220)"
  [ "$v" = 0 ] && echo "      $(printf '%s\n' "$out" | tail -2 | cut -c1-250 | tr '\n' '|')"
done
