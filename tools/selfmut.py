#!/usr/bin/env python3
"""Sensitivity waves written by hand (DESIGN.md 3.7 / 4.4 / 5.4): each entry edits /repo by string
replacement, runs the quick checks that should (or should not) notice, and reverts. Not part of any
registered check; results are recorded in DESIGN.md."""
import subprocess, sys, json, os
T='internal/template/template.go'
APPEND='''	mock.lock{{.Name}}.Lock()
	mock.calls.{{.Name}} = append(mock.calls.{{.Name}}, callInfo)
	mock.lock{{.Name}}.Unlock()
'''
MUT=[
 # name, [(file, old, new)...], props expected to flag, benign?
 ("A1-no-lock-append-stub-resets", [(T, APPEND, '''	{{- if and $.StubImpl $.WithResets}}
	mock.calls.{{.Name}} = append(mock.calls.{{.Name}}, callInfo)
	{{- else}}
	mock.lock{{.Name}}.Lock()
	mock.calls.{{.Name}} = append(mock.calls.{{.Name}}, callInfo)
	mock.lock{{.Name}}.Unlock()
	{{- end}}
''')], ["C05"], False),
 ("A2-rlock-append-generic", [(T, APPEND, '''	{{- if $mock.TypeParams}}
	mock.lock{{.Name}}.RLock()
	mock.calls.{{.Name}} = append(mock.calls.{{.Name}}, callInfo)
	mock.lock{{.Name}}.RUnlock()
	{{- else}}
	mock.lock{{.Name}}.Lock()
	mock.calls.{{.Name}} = append(mock.calls.{{.Name}}, callInfo)
	mock.lock{{.Name}}.Unlock()
	{{- end}}
''')], ["C05"], False),
 ("A3-accessor-no-rlock-otherpkg", [(T, '''	mock.lock{{.Name}}.RLock()
	calls = mock.calls.{{.Name}}
	mock.lock{{.Name}}.RUnlock()
''','''	{{- if $.SrcPkgQualifier}}
	calls = mock.calls.{{.Name}}
	{{- else}}
	mock.lock{{.Name}}.RLock()
	calls = mock.calls.{{.Name}}
	mock.lock{{.Name}}.RUnlock()
	{{- end}}
''')], ["C05"], False),
 ("A4-resetcalls-wrong-lock", [(T, '''	{{- range .Methods}}
	mock.lock{{.Name}}.Lock()
	mock.calls.{{.Name}} = nil
	mock.lock{{.Name}}.Unlock()
	{{end -}}
}''','''	{{- range .Methods}}
	mock.lock{{(index $mock.Methods 0).Name}}.Lock()
	mock.calls.{{.Name}} = nil
	mock.lock{{(index $mock.Methods 0).Name}}.Unlock()
	{{end -}}
}''')], ["C05"], False),
 ("A6-unlock-after-delegation-resultless-skipensure", [(T, '''{{- else}}
	{{- if $.StubImpl}}
	if mock.{{.Name}}Func == nil {
		return
	}
	{{- end}}
	mock.{{.Name}}Func({{.ArgCallList}})
{{- end}}''','''{{- else}}
	{{- if $.StubImpl}}
	if mock.{{.Name}}Func == nil {
		return
	}
	{{- end}}
	{{- if $.SkipEnsure}}
	mock.lock{{.Name}}.RLock()
	mock.{{.Name}}Func({{.ArgCallList}})
	mock.lock{{.Name}}.RUnlock()
	{{- else}}
	mock.{{.Name}}Func({{.ArgCallList}})
	{{- end}}
{{- end}}''')], ["C06"], False),
 ("A7-record-after-delegation-resultless-stub", [(T, APPEND+'''{{- if .Returns}}''', '''{{- if or .Returns (not $.StubImpl)}}
	mock.lock{{.Name}}.Lock()
	mock.calls.{{.Name}} = append(mock.calls.{{.Name}}, callInfo)
	mock.lock{{.Name}}.Unlock()
{{- else}}
	defer func() {
		mock.lock{{.Name}}.Lock()
		mock.calls.{{.Name}} = append(mock.calls.{{.Name}}, callInfo)
		mock.lock{{.Name}}.Unlock()
	}()
{{- end}}
{{- if .Returns}}''')], ["C04"], False),
 ("A8-reset-by-truncation", [(T, ''') Reset{{.Name}}Calls() {
	mock.lock{{.Name}}.Lock()
	mock.calls.{{.Name}} = nil''', ''') Reset{{.Name}}Calls() {
	mock.lock{{.Name}}.Lock()
	mock.calls.{{.Name}} = mock.calls.{{.Name}}[:0]''')], ["C04"], False),
 ("A10-double-delegation-resultless-resets", [(T, '''	mock.{{.Name}}Func({{.ArgCallList}})
{{- end}}
}''','''	mock.{{.Name}}Func({{.ArgCallList}})
	{{- if and $.WithResets $.SkipEnsure}}
	mock.{{.Name}}Func({{.ArgCallList}})
	{{- end}}
{{- end}}
}''')], ["C03"], False),
 ("A11-go-delegation-resultless-resets", [(T, '''	mock.{{.Name}}Func({{.ArgCallList}})
{{- end}}
}''','''	{{if $.WithResets}}go {{end}}mock.{{.Name}}Func({{.ArgCallList}})
{{- end}}
}''')], ["C03"], False),
 ("A12-variadic-rewrapped", [('internal/template/template_data.go','''		return p.Name() + "..."''','''		return "append(" + p.Name() + "[:0:0], " + p.Name() + "...)..."''')], ["C03"], False),
 ("A13-resetcalls-skips-last", [(T, '''	{{- range .Methods}}
	mock.lock{{.Name}}.Lock()
	mock.calls.{{.Name}} = nil
	mock.lock{{.Name}}.Unlock()
	{{end -}}
}''','''	{{- range $mi, $m := .Methods}}
	{{- if or (eq $mi 0) (lt $mi 3)}}
	mock.lock{{.Name}}.Lock()
	mock.calls.{{.Name}} = nil
	mock.lock{{.Name}}.Unlock()
	{{- end}}
	{{end -}}
}''')], ["C08"], False),
 ("A14-reset-methods-with-stub-no-flag", [(T, '''{{- if $.WithResets}}
// Reset{{.Name}}Calls reset all''','''{{- if or $.WithResets (and $.StubImpl $.SkipEnsure)}}
// Reset{{.Name}}Calls reset all''')], ["C08"], False),
 ("A15-panic-text-drops-interface-for-alias", [(T, '''panic("{{$mock.MockName}}.{{.Name}}Func: method is nil but {{$mock.InterfaceName}}.{{.Name}} was just called")''','''panic("{{$mock.MockName}}.{{.Name}}Func: method is nil but it was just called")''')], ["C07"], False),
 ("A16-stub-nil-check-before-record", [(T, '''{{- if not $.StubImpl}}
	if mock.{{.Name}}Func == nil {
		panic(''','''{{- if and $.StubImpl (not .Returns)}}
	if mock.{{.Name}}Func == nil {
		return
	}
{{- end}}
{{- if not $.StubImpl}}
	if mock.{{.Name}}Func == nil {
		panic(''')], ["C07"], False),
 # benign refactors: must NOT alarm
 ("B2-mutex-instead-of-rwmutex", [(T, '.RWMutex', '.Mutex'), (T, '.RLock()', '.Lock()'), (T, '.RUnlock()', '.Unlock()')], ["C05","C06","C04"], True),
 ("B3-accessor-returns-copy", [(T, '''	calls = mock.calls.{{.Name}}
	mock.lock{{.Name}}.RUnlock()''','''	calls = append(calls, mock.calls.{{.Name}}...)
	mock.lock{{.Name}}.RUnlock()''')], ["C04","C05"], True),
 ("B4-reworded-panic", [(T, ''': method is nil but {{$mock.InterfaceName}}.{{.Name}} was just called")''',''' is not set, yet {{$mock.InterfaceName}}.{{.Name}} has been invoked")''')], ["C07"], True),
 # engine C
 ("C2-rm-after-load", [('main.go','''	if flags.remove && flags.outFile != "" {
		if err := os.Remove(flags.outFile); err != nil {
			if !errors.Is(err, os.ErrNotExist) {
				return err
			}
		}
	}

''',''), ('main.go','''	if err = m.Mock(out, args...); err != nil {''','''	if flags.remove && flags.outFile != "" {
		if err := os.Remove(flags.outFile); err != nil {
			if !errors.Is(err, os.ErrNotExist) {
				return err
			}
		}
	}

	if err = m.Mock(out, args...); err != nil {''')], ["C15"], False),
 ("C3-mkdirall-outfile", [('main.go','os.MkdirAll(filepath.Dir(flags.outFile), 0o750)','os.MkdirAll(filepath.Dir(flags.outFile)+"/.moq", 0o750)')], ["C18"], False),
 ("C4-exit-zero-on-error", [('main.go','''		flag.Usage()
		os.Exit(1)''','''		flag.Usage()
		if flags.stubImpl {
			os.Exit(0)
		}
		os.Exit(1)''')], ["C17"], False),
 ("C5-diagnostic-to-stdout", [('main.go','fmt.Fprintln(os.Stderr, err)','fmt.Println(err)')], ["C17"], False),
 ("C6-rename-error-ignored", [('main.go','	return os.Rename(tmp, name)','	os.Rename(tmp, name)\n	return nil')], ["C17"], False),
 ("C8-leftover-temp-on-error", [('main.go','''		if err != nil {
			os.Remove(tmp)
		}''','''		if err != nil && len(data) == 0 {
			os.Remove(tmp)
		}''')], ["C18"], False),
 ("C9-stream-to-out-before-generating", [('main.go','''	var buf bytes.Buffer
	var out io.Writer = os.Stdout
	if flags.outFile != "" {
		out = &buf
	}
''','''	var buf bytes.Buffer
	var out io.Writer = os.Stdout
	if flags.outFile != "" {
		out = &buf
		if f, err := os.Create(flags.outFile); err == nil {
			f.Close()
		}
	}
''')], ["C17"], False),
 # engine B
 ("D2-searchimport-last-match", [('internal/registry/registry.go','''	for _, imprt := range r.imports {
		if imprt.Qualifier() == name {
			return imprt, true
		}
	}

	return nil, false''','''	var found *Package
	for _, imprt := range r.imports {
		if imprt.Qualifier() == name || (imprt.Alias == "" && imprt.pkg.Name() == name) {
			found = imprt
		}
	}

	return found, found != nil''')], ["C14"], False),
 ("D3-timestamp-in-header", [(T,'// github.com/matryer/moq\n','// github.com/matryer/moq{{if and .StubImpl .WithResets}} ({{Today}}){{end}}\n'),(T,'''	"Exported": func(s string) string {''','''	"Today": func() string { return time.Now().Format("2006-01-02") },
	"Exported": func(s string) string {'''),(T,'''	"strings"
	"text/template"''','''	"strings"
	"text/template"
	"time"''')], ["C14"], False),
 ("D4-write-each-mock-as-rendered", [('pkg/moq/moq.go','''	if _, err := w.Write(formatted); err != nil {
		return err
	}
	return nil''','''	for len(formatted) > 0 {
		n := len(formatted)
		if n > 4096 {
			n = 4096
		}
		if _, err := w.Write(formatted[:n]); err != nil {
			return err
		}
		formatted = formatted[n:]
	}
	return nil''')], ["C17"], True),  # chunked writing of the complete file is still written once (DESIGN.md section 14): expected quiet
 ("D5-writer-error-ignored", [('pkg/moq/moq.go','''	if _, err := w.Write(formatted); err != nil {
		return err
	}
	return nil''','''	w.Write(formatted)
	return nil''')], ["C17"], False),
]
def sh(cmd, **kw): return subprocess.run(cmd, shell=True, capture_output=True, text=True, **kw)
only = sys.argv[1:]
results=[]
for name, edits, props, benign in MUT:
    if only and not any(o in name for o in only): continue
    assert sh('git -C /repo status --porcelain --untracked-files=no').stdout.strip()=='' , '/repo dirty'
    ok=True
    for f,old,new in edits:
        p='/repo/'+f; s=open(p).read()
        if old not in s: print(name,'PATTERN NOT FOUND in',f); ok=False; break
        open(p,'w').write(s.replace(old,new))
    row={'name':name,'benign':benign,'checks':{}}
    if ok:
        b=sh('cd /repo && PATH=/opt/veriftools/go1.26.8/bin:$PATH GOTOOLCHAIN=local GOFLAGS=-mod=mod GOPROXY=off GOSUMDB=off go build ./... 2>&1')
        if b.returncode!=0: print(name,'DOES NOT BUILD',b.stdout[:300]); ok=False
    if ok:
        for pr in props:
            r=sh(f'cd /verif && VERIF_OUT=/tmp/selfout ./vcheck check -prop {pr} -tier quick 2>&1 | grep -v ^WARNING')
            v=[l for l in r.stdout.splitlines() if l.startswith('VIOLATION')]
            last=[l for l in r.stdout.splitlines() if not l.startswith('VIOLATION')][-1:]
            row['checks'][pr]={'violations':len(v),'first':(v[0][:230] if v else ''),'tail':(last[0][:200] if last else '')}
            verdict = ('FALSE-ALARM' if v else 'quiet-ok') if benign else ('caught' if v else 'MISSED')
            print(f'{name:50s} {pr}: {verdict:11s} {(v[0][:170] if v else (last[0][:170] if last else ""))}', flush=True)
    sh('git -C /repo checkout -- .')
    results.append(row)
json.dump(results, open('/tmp/selfmut_results.json','w'), indent=1)
