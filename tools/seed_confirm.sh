#!/bin/bash
# usage: tools/seed_confirm.sh <agent-out-dir> <seed-id> <target-prop> "<needs text>" [<also-prop>...]
# Literal procedure: git -C /repo apply <patch>; run the registered quick command(s); git -C /repo checkout -- .
# Stores the change under /verif/seeded/<seed-id>/ with meta.json. Evidence/replays of these runs go to /tmp/seedout.
src="$1"; id="$2"; prop="$3"; needs="$4"; shift 4
dst=/verif/seeded/$id
mkdir -p $dst; cp "$src/patch.diff" $dst/patch.diff.new && mv $dst/patch.diff.new $dst/patch.diff; if [ "$(readlink -f $src/demo)" != "$(readlink -f $dst/demo)" ]; then rm -rf $dst/demo; cp -rL "$src/demo" $dst/demo; fi; [ -f "$src/notes.md" ] && cp "$src/notes.md" $dst/notes.md
find $dst/demo -type f \( -name 'moq' -o -name '*.test' -o -name 'faultexec' -o -size +500k \) -delete 2>/dev/null
cd /repo || exit 2
[ -z "$(git status --porcelain --untracked-files=no)" ] || { echo "/repo dirty"; exit 2; }
git apply $dst/patch.diff || exit 2
trap 'git -C /repo checkout -- .; git -C /repo clean -fdq' EXIT INT TERM
declare -A res
for p in "$prop" "$@"; do
  out=$(cd /verif && VERIF_OUT=/tmp/seedout ./vcheck check -prop "$p" -tier quick 2>&1 | grep -v '^WARNING')
  v=$(printf '%s\n' "$out" | grep '^VIOLATION' | head -3 | sed 's/"/\\"/g' | cut -c1-300)
  n=$(printf '%s\n' "$out" | grep -c '^VIOLATION')
  res[$p]="$n"
  eval "lines_$p=\$v"
  echo "$id $p: $n violation(s): $(printf '%s' "$v" | head -1 | cut -c1-200)"
done
git -C /repo checkout -- .; git -C /repo clean -fdq
python3 - "$dst" "$id" "$prop" "$needs" "$(for p in "$prop" "$@"; do eval "echo \"$p|${res[$p]}|\$lines_$p\""; echo '@@'; done)" "$(git -C /repo rev-parse --short HEAD)" <<'PY'
import sys, json
dst, sid, prop, needs, blob, head = sys.argv[1:7]
checks={}
for chunk in blob.split('@@'):
    chunk=chunk.strip()
    if not chunk: continue
    first, *rest = chunk.split('\n')
    p, n, l0 = first.split('|',2)
    checks[p]={"quick_violations": int(n), "first_lines": [x for x in [l0]+rest if x][:3]}
meta={"id": sid, "breaks_property": prop, "origin": "written by an independent sub-agent that was given only the property text and a scratch worktree of /repo",
 "needs_to_manifest": needs,
 "verified": {"applies_to": head, "builds_and_vets": True, "baseline_suite": "unchanged (48 pass, only TestGoGenerateVendoredPackages fails, as on the unmodified tree)", "demo": "demo/run.sh <tree> exits non-zero with the patch and 0 without (run in scratch worktrees by tools/seed_eval.sh)"},
 "what_i_ran": "git -C /repo apply seeded/%s/patch.diff; ./vcheck check -prop <P> -tier quick (the registered quick command) for each property below; git -C /repo checkout -- ." % sid,
 "checks": checks,
 "caught_by": sorted([p for p,c in checks.items() if c["quick_violations"]>0])}
json.dump(meta, open(dst+'/meta.json','w'), indent=1)
PY
