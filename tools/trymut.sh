#!/bin/sh
# usage: tools/trymut.sh <patch.diff> <prop> [<prop>...]
# Applies a change to /repo, runs the named quick checks, and always undoes the change.
patch="$1"; shift
cd /repo || exit 2
if [ -n "$(git status --porcelain --untracked-files=no)" ]; then echo "/repo is dirty" >&2; exit 2; fi
git apply "$patch" || { echo "patch does not apply" >&2; exit 2; }
trap 'git -C /repo checkout -- . ; git -C /repo clean -fdq -- . 2>/dev/null' EXIT INT TERM
for p in "$@"; do
  out=$(cd /verif && ./vcheck check -prop "$p" -tier quick 2>&1 | grep -v "^WARNING"); rc=$?
  v=$(printf '%s\n' "$out" | grep -c '^VIOLATION')
  echo "== $p: $(printf '%s\n' "$out" | grep -E '^(VIOLATION|KNOWN)' | head -3 | cut -c1-260)"
  printf '%s\n' "$out" | grep -vE '^(VIOLATION|KNOWN)' | tail -3 | cut -c1-300
  echo "   -> $p violations=$v"
done
